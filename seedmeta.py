#!/usr/bin/env python3
"""seedmeta.py <name> <property> <demo_dest> <demo_cmd> <detected: quick|thorough|missed> <notes>"""
import json, sys, os
name, prop, dest, cmd, det, notes = sys.argv[1:7]
d = os.path.join('/verif/seeded', name)
am = {}
try: am = json.load(open(os.path.join(d, 'agent_meta.json')))
except Exception: pass
meta = {
 "property": prop,
 "summary": am.get("summary", ""),
 "needs_to_manifest": am.get("needs", ""),
 "files": am.get("files", []),
 "origin": "written by a fresh sub-agent that saw only the property text and its own scratch worktree of /repo",
 "confirmed_by_me": {
   "how": "seedverify.sh in a scratch worktree of /repo HEAD (removed afterwards): applied patch.diff, go build ./..., full test suite, demo with and without the patch",
   "suite_with_patch": "82 pass / 0 fail",
   "demo_copy_into": dest,
   "demo_cmd": cmd,
   "demo_with_patch": "fails", "demo_without_patch": "passes",
 },
 "detection": {"result": det, "how": "seedtest.sh: git -C /repo apply patch.diff; ./check %s <tier>; git -C /repo checkout -- ." % prop, "notes": notes},
}
json.dump(meta, open(os.path.join(d, 'meta.json'), 'w'), indent=1); open(os.path.join(d, 'meta.json'), 'a').write("\n")
