#!/usr/bin/env bash
# ./seedtest.sh <patch.diff> <ID> [tier]  : apply a seeded change to /repo, run the check, undo. Prints DETECTED / MISSED.
set -u
PATCH="$1"; ID="$2"; TIER="${3:-quick}"
cd "$(dirname "$0")"
if [ -n "$(git -C /repo status --porcelain)" ]; then echo "repo dirty, refusing"; exit 9; fi
git -C /repo apply "$PATCH" || { echo "patch does not apply"; exit 9; }
cp evidence/$ID.json /tmp/ev-$ID.bak 2>/dev/null
./check "$ID" "$TIER" > /tmp/seedtest-$ID.log 2>&1
RC=$?
git -C /repo checkout -- . 
cp /tmp/ev-$ID.bak evidence/$ID.json 2>/dev/null; rm -f /tmp/ev-$ID.bak
if [ $RC -eq 1 ] && grep -q "^VIOLATION property=$ID" /tmp/seedtest-$ID.log; then
  echo "DETECTED ($ID $TIER): $(grep -c '^VIOLATION' /tmp/seedtest-$ID.log) violation keys; first: $(grep -A1 '^VIOLATION' /tmp/seedtest-$ID.log | sed -n 2p | cut -c1-200)"
else
  echo "MISSED ($ID $TIER) rc=$RC: $(tail -3 /tmp/seedtest-$ID.log | head -1 | cut -c1-200)"
fi
