#!/usr/bin/env bash
# ./mkseed.sh <ID> <tag> [extra hint] : prepare a scratch worktree + prompt for a seeding sub-agent (nothing from /verif is given to it)
set -eu
ID="$1"; TAG="$2"; HINT="${3:-}"
WT=/tmp/seed-$ID-$TAG; OUT=/tmp/seed-$ID-$TAG-out
git -C /repo worktree add -q --detach $WT HEAD
mkdir -p $OUT
python3 - "$ID" "$WT" "$OUT" "$HINT" <<'PY'
import sys, json
id, wt, out, hint = sys.argv[1:5]
for l in open('/verif/properties.jsonl'):
    p = json.loads(l)
    if p['id'] == id:
        prop = "id: %s\ntitle: %s\nstatement: %s\nquantifier: %s\n" % (p['id'], p['title'], p['statement'], p['quantifier']['text'])
t = open('/verif/seed-prompt.txt').read()
t = t.replace('WORKTREE', wt).replace('OUTDIR', out).replace('PROPERTY_TEXT', prop)
if hint:
    t += "\nAdditional steer for this run (to get variety across runs): " + hint + "\n"
open(out + '/prompt.txt', 'w').write(t)
PY
echo "$OUT/prompt.txt"
