#!/usr/bin/env bash
# setup_cmd: build the harness (plain and -race) from files on disk only; warms the Go build cache.
set -eu
cd "$(dirname "$0")"
. ./env.sh
mkdir -p .build evidence replay
( cd harness && go build -tags verif -o ../.build/vcheck ./cmd/vcheck )
( cd harness && go build -tags verif -race -o ../.build/vcheck-race ./cmd/vcheck )
( cd harness && go build -tags verif -race -o ../.build/firstuse-race ./cmd/firstuse )
( cd harness && go build -tags verif -o ../.build/firstuse ./cmd/firstuse )
echo "setup ok: $(go version)"
