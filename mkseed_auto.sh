#!/usr/bin/env bash
# ./mkseed_auto.sh <ID> <tag> : like mkseed.sh, with a hint listing what earlier seeded changes for this property did
ID="$1"; TAG="$2"
HINT=$(python3 - "$ID" <<'PY'
import json,glob,sys
id=sys.argv[1]
out=[]
for f in sorted(glob.glob('/verif/seeded/*/meta.json')):
    m=json.load(open(f))
    if m.get('property')==id and m.get('summary'):
        out.append('- '+m['summary'].replace('\n',' ')[:300])
print("earlier runs for this property already produced the following changes - do something clearly different, in another function or another mechanism, and prefer a trigger that needs an unusual but realistic combination:\n"+"\n".join(out))
PY
)
/verif/mkseed.sh "$ID" "$TAG" "$HINT"
