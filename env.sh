# sourced by ./check and setup.sh: toolchain + offline env for building the harness
VERIF_ROOT="$(cd "$(dirname "${BASH_SOURCE[0]}")" && pwd)"
GO1242="/root/go/pkg/mod/golang.org/toolchain@v0.0.1-go1.24.2.linux-amd64"
if [ -x "$GO1242/bin/go" ]; then
  export PATH="$GO1242/bin:$PATH"
  export GOROOT="$GO1242"
fi
export GOTOOLCHAIN=local GOPROXY=off GOSUMDB=off GOFLAGS=-mod=mod GONOSUMDB='*' GONOSUMCHECK=1 GOFLAGS=-mod=mod
export CGO_ENABLED=1
