#!/usr/bin/env bash
# ./seedverify.sh <outdir> <name> <demo-dest-dir-rel> <demo cmd...> : confirm a seeded change in a scratch worktree
# (suite passes with it, demo fails with it and passes without), then store it under seeded/<name>/.
set -u
OUT="$1"; NAME="$2"; DEST="$3"; shift 3
cd "$(dirname "$0")"; . ./env.sh
WT=/tmp/sv-$NAME
git -C /repo worktree add -q --detach $WT HEAD || exit 9
trap 'git -C /repo worktree remove --force $WT' EXIT
cd $WT
git apply "$OUT/patch.diff" || { echo "PATCH-DOES-NOT-APPLY"; exit 1; }
go build ./... || { echo "BUILD-FAILS"; exit 1; }
S=$(go test -json -vet=off -count=1 ./... 2>&1 | grep -c '"Action":"pass","Package":"[^"]*","Test"')
F=$(go test -json -vet=off -count=1 ./... 2>&1 | grep -c '"Action":"fail","Package":"[^"]*","Test"')
echo "suite with patch: pass=$S fail=$F"
git checkout -q -- testdata gengo.sum 2>/dev/null
cp -r "$OUT"/demo/*.go "$DEST"/ 2>/dev/null
"$@" > /tmp/sv-$NAME.with.log 2>&1; RW=$?
git apply -R "$OUT/patch.diff"
"$@" > /tmp/sv-$NAME.without.log 2>&1; RWO=$?
echo "demo with patch: exit=$RW ; without: exit=$RWO"
if [ "$S" -ge 82 ] && [ "$F" -eq 0 ] && [ $RW -ne 0 ] && [ $RWO -eq 0 ]; then
  mkdir -p /verif/seeded/$NAME && cp "$OUT/patch.diff" /verif/seeded/$NAME/ && rm -rf /verif/seeded/$NAME/demo && cp -r "$OUT/demo" /verif/seeded/$NAME/demo && cp "$OUT/meta.json" /verif/seeded/$NAME/agent_meta.json
  echo "CONFIRMED $NAME"
else
  echo "NOT-CONFIRMED $NAME"; tail -5 /tmp/sv-$NAME.with.log; tail -5 /tmp/sv-$NAME.without.log
fi
