#!/usr/bin/env bash
# ./bgmut.sh : for `vp run --with-repo -- ./bgmut.sh`; selftest.sh against the snapshot of /repo's HEAD ($VP_RUN_REPO): every
# mutant of mutants/MAP must be DETECTED by at least one mapped quick check. Exploration only, never evidence.
set -u
cd "$(dirname "$0")"
R="${VP_RUN_REPO:?needs vp run --with-repo}"
sed -i "s#=> /repo#=> $R#" harness/go.mod
export VERIF_REPO="$R"
mkdir -p logs
while IFS=$'\t' read -r PATCH PROPS NOTE; do
  [ -z "$PATCH" ] && continue
  case "$PATCH" in \#*) continue;; esac
  if ! git -C "$R" apply --check "$PWD/mutants/$PATCH" 2>/dev/null; then echo "SKIP  $PATCH (does not apply)"; continue; fi
  git -C "$R" apply "$PWD/mutants/$PATCH"
  RES=""
  for ID in $PROPS; do
    ./check "$ID" quick > logs/mut-$PATCH-$ID.log 2>&1; RC=$?
    if [ $RC -eq 1 ] && grep -q "^VIOLATION property=$ID" logs/mut-$PATCH-$ID.log; then RES="$RES $ID:DETECTED"; else RES="$RES $ID:missed(rc=$RC)"; fi
  done
  git -C "$R" checkout -- .
  echo "$PATCH ->$RES"
done < mutants/MAP
