#!/usr/bin/env bash
# ./benigntest.sh <patch.diff> [ids...] : apply a property-PRESERVING change to /repo, run the quick checks, undo.
# Any VIOLATION is a false alarm of the harness (or the change is not as harmless as claimed - inspect).
set -u
PATCH="$1"; shift
IDS="${*:-C01 C02 C03 C04 C05 C06 C07 C08 C09 C10 C11 C12 C13 C14 C15 C16 C17 C18 C19 C20}"
cd "$(dirname "$0")"
if [ -n "$(git -C /repo status --porcelain)" ]; then echo "repo dirty, refusing"; exit 9; fi
git -C /repo apply "$PATCH" || { echo "patch does not apply"; exit 9; }
mkdir -p /tmp/benigntest; rm -f /tmp/benigntest/*.log
cp -r evidence /tmp/benigntest/evidence.bak
for ID in $IDS; do
  ./check $ID quick > /tmp/benigntest/$ID.log 2>&1; RC=$?
  if [ $RC -ne 0 ]; then echo "ALARM $ID rc=$RC: $(grep -m1 -A1 '^VIOLATION\|^INCONCLUSIVE' /tmp/benigntest/$ID.log | tr '\n' ' ' | cut -c1-260)"; fi
done
git -C /repo checkout -- .
rm -rf evidence; mv /tmp/benigntest/evidence.bak evidence
echo "benigntest done"
