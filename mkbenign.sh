#!/usr/bin/env bash
# ./mkbenign.sh <n> "<focus area>" : worktree + prompt for a sub-agent that writes a property-PRESERVING change (false-alarm hunting)
set -eu
N="$1"; AREA="$2"
WT=/tmp/benign-$N; OUT=/tmp/benign-$N-out
git -C /repo worktree add -q --detach $WT HEAD
mkdir -p $OUT
python3 - "$WT" "$OUT" "$AREA" <<'PY'
import sys, json
wt, out, area = sys.argv[1:4]
props = []
for l in open('/verif/properties.jsonl'):
    p = json.loads(l)
    props.append("%s - %s\n  %s\n  (for: %s)" % (p['id'], p['title'], p['statement'], p['quantifier']['text']))
t = open('/verif/benign-prompt.txt').read()
t = t.replace('WORKTREE', wt).replace('OUTDIR', out).replace('ALL_PROPERTIES', "\n\n".join(props)).replace('FOCUS_AREA', area)
open(out + '/prompt.txt', 'w').write(t)
PY
echo "$OUT/prompt.txt"
