#!/usr/bin/env bash
# ./seedregress.sh [filter] : re-run every stored seeded change against the check of its property (quick tier);
# prints one line per seed; anything not DETECTED needs attention. Patches /repo's working tree: run it alone.
set -u
cd "$(dirname "$0")"
FILTER="${1:-}"
for d in seeded/*/; do
  n=$(basename $d)
  [ -n "$FILTER" ] && ! echo "$n" | grep -q "$FILTER" && continue
  [ -f $d/patch.diff ] || continue
  ID=$(python3 -c "import json;print(json.load(open('$d/meta.json')).get('property',''))" 2>/dev/null)
  [ -z "$ID" ] && { echo "$n: no property in meta"; continue; }
  if ! git -C /repo apply --check "$PWD/$d/patch.diff" 2>/dev/null; then echo "$n: SKIP (does not apply to the current tree)"; continue; fi
  R=$(./seedtest.sh "$PWD/$d/patch.diff" $ID quick | cut -c1-100)
  echo "$n: $R"
done
