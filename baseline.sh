#!/usr/bin/env bash
# Runs the repository's own (pinned, unedited) test suite with the `verif` build tag OFF.
# Prints the number of passing tests; exit 0 iff nothing failed and the count is >= 82.
set -u
cd "$(dirname "$0")"
. ./env.sh
cd "${VERIF_REPO:-/repo}"
OUT="$(mktemp)"
trap 'rm -f "$OUT"' EXIT
go test -json -vet=off -count=1 -timeout 25m ./... > "$OUT" 2>&1
RC=$?
PASS=$(grep -c '"Action":"pass","Package":"[^"]*","Test"' "$OUT")
FAIL=$(grep -c '"Action":"fail","Package":"[^"]*","Test"' "$OUT")
echo "baseline (tag off): pass=$PASS fail=$FAIL go-test-exit=$RC"
if [ "$RC" -ne 0 ] || [ "$FAIL" -ne 0 ] || [ "$PASS" -lt 82 ]; then
  grep -E '"Action":"(fail|output)"' "$OUT" | grep -v '"Action":"output".*(PASS|ok  |=== RUN|--- PASS)' | head -60
  exit 1
fi
# the suite may rewrite testdata outputs when its cache misses; report it so a fix never does this silently
git -C "${VERIF_REPO:-/repo}" status --short | sed 's/^/repo-dirty: /'
exit 0
