#!/usr/bin/env bash
# ./bgpatch.sh <mapfile> : for `vp run --with-repo -- ./bgpatch.sh <mapfile>`; each line of the map is "<patch path relative to this
# snapshot> <ids...>". The patch is applied to the snapshot of /repo ($VP_RUN_REPO), the quick checks of THIS snapshot are run
# against it and the patch is undone - /repo and /verif are never touched, so editing can go on meanwhile.
# Output per patch: "silent" or one "ALARM <ID> rc=<n>: ..." line per check that did not exit 0. Exploration only, never evidence.
set -u
cd "$(dirname "$0")"
MAP="$1"
R="${VP_RUN_REPO:?needs vp run --with-repo}"
sed -i "s#=> /repo#=> $R#" harness/go.mod
export VERIF_REPO="$R"
mkdir -p logs
while read -r P IDS; do
  [ -z "$P" ] && continue
  if ! git -C "$R" apply --check "$PWD/$P" 2>/dev/null; then echo "$P: SKIP (does not apply)"; continue; fi
  git -C "$R" apply "$PWD/$P"
  OUT=""
  for ID in $IDS; do
    L=logs/$(echo "$P" | tr '/' '_').$ID.log
    ./check $ID quick > $L 2>&1; RC=$?
    if [ $RC -ne 0 ]; then OUT="$OUT
  ALARM $ID rc=$RC: $(grep -m1 -A1 '^VIOLATION\|^INCONCLUSIVE' $L | tr '\n' ' ' | cut -c1-260)"; fi
  done
  git -C "$R" checkout -- .
  echo "$P [$IDS]: ${OUT:-silent}"
done < "$MAP"
