#!/usr/bin/env bash
# ./runall.sh [quick|thorough] [ids...] : run every check, print one line per property
cd "$(dirname "$0")"
TIER="${1:-quick}"; shift || true
IDS="${*:-C01 C02 C03 C04 C05 C06 C07 C08 C09 C10 C11 C12 C13 C14 C15 C16 C17 C18 C19 C20}"
mkdir -p /tmp/runall
for ID in $IDS; do
  S=$(date +%s)
  ./check $ID $TIER > /tmp/runall/$ID.$TIER.log 2>&1
  RC=$?
  E=$(date +%s)
  echo "$ID rc=$RC $((E-S))s $(grep -E "^$ID tier" /tmp/runall/$ID.$TIER.log | cut -c1-160)"
done
