#!/usr/bin/env bash
# ./benignregress.sh : re-run the stored property-preserving changes (benign/<n>/patch.diff) against the quick checks
# they can touch (map below: by the area a change sits in). Any ALARM line is a false alarm. Patches /repo: run it alone.
cd "$(dirname "$0")"
while read -r N IDS; do
  [ -z "$N" ] && continue
  P=/verif/benign/$N/patch.diff
  [ -f "$P" ] || { echo "benign $N: no patch"; continue; }
  if ! git -C /repo apply --check "$P" 2>/dev/null; then echo "benign $N: SKIP (does not apply to the current tree)"; continue; fi
  OUT=$(./benigntest.sh "$P" $IDS 2>&1 | grep -v "benigntest done")
  if [ -z "$OUT" ]; then echo "benign $N [$IDS]: silent"; else echo "benign $N [$IDS]: $OUT"; fi
done <<'MAP'
1 C03 C01 C04
2 C01 C02 C04
3 C04 C05 C02 C06 C07
4 C08 C04 C07
5 C09 C01
6 C10
7 C13 C05 C04
8 C14 C05
9 C16 C05
10 C17 C04 C05
11 C18
12 C19
21 C01 C02 C04 C07 C08
22 C03 C01
23 C08 C04 C13
24 C10
# 25 and 64 are no longer property-preserving: struct{ any } renders as struct {interface{}} (DESIGN 8.6)
26 C12 C06 C16
27 C15 C03 C11
28 C02 C06
29 C20
30 C19
31 C06 C02 C05 C07
32 C07 C02 C04
41 C03 C05 C09 C11
42 C06 C04
43 C06 C04 C05
44 C01 C03 C04
45 C03
46 C08 C04 C07
47 C14 C13
48 C02 C01
49 C17 C18 C05 C04
50 C16 C05
51 C20
52 C13
61 C12 C06 C16 C13
62 C13 C08 C04 C07
63 C10 C04 C01
64 C17 C18
65 C15 C11 C03
66 C08 C04 C07 C02
67 C17 C04 C05
68 C18
69 C14 C05
70 C20 C19
71 C01 C02 C07 C08 C04
72 C06 C02 C07 C05 C01 C04
73 C09 C01 C03
74 C12 C16 C06 C13
75 C14 C05
76 C17 C04 C05
77 C13
78 C03 C01 C15 C11 C18
79 C16 C05
80 C12 C06 C17 C16 C05
MAP
