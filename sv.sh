#!/usr/bin/env bash
# ./sv.sh <ID> <tag> <demo-dest-dir> <demo cmd...> : seedverify + seedtest in one go
ID="$1"; TAG="$2"; DEST="$3"; shift 3
cd "$(dirname "$0")"
./seedverify.sh /tmp/seed-$ID-$TAG-out $ID-$TAG "$DEST" "$@" 2>&1 | tail -1
./seedtest.sh /verif/seeded/$ID-$TAG/patch.diff $ID quick | cut -c1-220
