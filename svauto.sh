#!/usr/bin/env bash
# ./svauto.sh <ID> <tag> : seedverify + seedtest using demo_cmd from the agent's meta.json (destination = the package dir in the command)
ID="$1"; TAG="$2"
cd "$(dirname "$0")"
OUT=/tmp/seed-$ID-$TAG-out
CMD=$(python3 -c "
import json,sys,re
m=json.load(open('$OUT/meta.json'))
c=m.get('demo_cmd','')
c=c.split('&&')[-1].strip().replace(chr(39),'').replace(chr(34),'')
print(c)")
DEST=$(echo "$CMD" | grep -o '\./[A-Za-z0-9_/.-]*' | head -1 | sed 's#^\./##; s#/$##; s#/\.\.\.$##')
echo "[$ID-$TAG] dest=$DEST cmd=$CMD"
./seedverify.sh $OUT $ID-$TAG "$DEST" $CMD 2>&1 | tail -1
./seedtest.sh /verif/seeded/$ID-$TAG/patch.diff $ID quick | cut -c1-230
