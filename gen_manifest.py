#!/usr/bin/env python3
"""Regenerates MANIFEST.json from the table below (kept in one place so that the manifest is
always valid and in step with the checks that exist)."""
import json, os, subprocess

ROOT = os.path.dirname(os.path.abspath(__file__))

# id -> (category, technique, level text, level note, design ref)
CHECKS = {
 "C09": ("exploration",
         "differential runtime monitor: every render of the real snippet package compared with a reference renderer written from the statement; exhaustive small-scope + seeded random inputs",
         "Every T format up to length 4 (quick) / 6 (thorough) over an 11-symbol alphabet under >=14 binding environments, every Sprintf format up to length 5 / 7 over 7 symbols x 6 argument lists, plus seeded long random formats and Comment/GoDirective/Snippets/Fragments workloads, are rendered by the real code and compared (panic flag + bytes) with an independent reference. Held = no disagreement on the executions observed; not a proof for longer formats.",
         "Trusted: the reference renderer in harness/internal/props/c09 (80 lines, written from the statement) and Go's strconv.Quote for the expected value literals. A bare '@' is judged by a relaxed oracle (statement silent).",
         "DESIGN.md 4/C09"),
}

NOT_YET = {}

def main():
    props = [json.loads(l) for l in open(os.path.join(ROOT, "properties.jsonl"))]
    hooks_commits = []
    try:
        out = subprocess.run(["git", "-C", "/repo", "log", "--format=%h %s"], capture_output=True, text=True).stdout
        for l in out.splitlines():
            h, _, subj = l.partition(" ")
            if subj.startswith("verif:"):
                hooks_commits.append(h)
    except Exception:
        pass
    checks = []
    na = []
    for p in props:
        pid = p["id"]
        if pid in CHECKS:
            cat, tech, text, note, ref = CHECKS[pid]
            checks.append({
                "property_id": pid,
                "quick_cmd": f"./check {pid} quick",
                "thorough_cmd": f"./check {pid} thorough",
                "evidence_file": f"/verif/evidence/{pid}.json",
                "replay_cmd_template": f"./check {pid} --replay {{path}}",
                "engine": "vcheck",
                "level_claimed": {"category": cat, "text": text, "design_ref": ref},
                "level_note": note,
                "technique": tech,
            })
        else:
            na.append({"property_id": pid, "reason": NOT_YET.get(pid, "runtime monitoring applies (see DESIGN.md section 4) but the check is not built yet in this round; not claimed until it is")})
    m = {
        "version": 1,
        "setup_cmd": "./setup.sh",
        "hooks": {
            "guard": "verif (Go build tag)",
            "enable": "go build -tags verif (the harness module replaces github.com/octohelm/gengo with /repo, so every ./check rebuilds from /repo's working tree)",
            "baseline_off_cmd": "./baseline.sh",
            "source_commits": hooks_commits,
            "add_only": True,
        },
        "engines": [{
            "name": "vcheck",
            "path": "/verif/harness",
            "serves_properties": sorted(CHECKS.keys()),
            "kind_free_text": "Go coordinator + worker sub-processes executing the real gengo code (linked from /repo) on seed-determined workloads; oracles: reference implementations, Go front end, compiled check programs, tree snapshots, -race, porcupine",
        }],
        "checks": checks,
        "not_applicable": na,
        "notes": "Runtime-monitoring family only. Exit codes of ./check: 0 held on everything observed, 1 violation (VIOLATION line + replay file), 2 /repo does not build, 3 inconclusive (watchdog / too few observations). VERIF_SEED selects the seed (default 1). known_findings.json lists repaired defects (fixed:) and open findings.",
    }
    with open(os.path.join(ROOT, "MANIFEST.json"), "w") as f:
        json.dump(m, f, indent=1)
        f.write("\n")

if __name__ == "__main__":
    main()
