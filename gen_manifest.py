#!/usr/bin/env python3
"""Regenerates MANIFEST.json from the table below (kept in one place so that the manifest is
always valid and in step with the checks that exist)."""
import json, os, subprocess

ROOT = os.path.dirname(os.path.abspath(__file__))

# id -> (category, technique, level text, level note, design ref)
CHECKS = {
 "C09": ("exploration",
         "differential runtime monitor: every render of the real snippet package compared with a reference renderer written from the statement; exhaustive small-scope + seeded random inputs",
         "Every T format up to length 4 (quick) / 6 (thorough) over an 11-symbol alphabet under >=14 binding environments, every Sprintf format up to length 5 / 7 over 7 symbols x 6 argument lists, plus seeded long random formats and Comment/GoDirective/Snippets/Fragments workloads, are rendered by the real code and compared (panic flag + bytes) with an independent reference. Held = no disagreement on the executions observed; not a proof for longer formats.",
         "Trusted: the reference renderer in harness/internal/props/c09 (80 lines, written from the statement) and Go's strconv.Quote for the expected value literals. A bare '@' is judged by a relaxed oracle (statement silent).",
         "DESIGN.md 4/C09"),
 "C03": ("exploration",
         "runtime monitor over the real import tracker/namer: seeded adversarial path sets x reference kinds, name-stability and exactness assertions after every render, and the Go type checker (go/types over fabricated packages) judging the assembled import block + references",
         "Thousands of seeded path sets (clash families: std twins, 1-3 clashing trailing segments, vN, apis/domain, keywords, digits, punctuation/case twins, single-segment, the target itself) are referenced through 7 reference kinds via one SnippetWriter+tracker; after every render the names seen so far must be unchanged, qualifiers must equal Imports()[path], and at the end the import set must be exact, names distinct valid identifiers, and go/types must accept the file and resolve every reference to the intended type. Held = no disagreement on the executions observed.",
         "Trusted: go/parser, go/types, the fabricated package universe (harness/typgen). No particular name is demanded. Paths whose last segment is a predeclared identifier are not generated.",
         "DESIGN.md 4/C03"),
 "C10": ("exploration",
         "compiled-and-executed check program as oracle: seeded values rendered by the real dumper, compiled by the Go compiler into a test binary of the fixture package, evaluated and compared (canonical dump) with the originals",
         "600 (quick) / 24000 (thorough) seeded values over ~110 root types with edge values are rendered via Value and Sprintf(%v) into a foreign and into the own package, parsed, compiled (all compiler errors attributed to cases by line), executed and compared with the originals; rendering is repeated in-process and in a second process for text determinism. Held = every literal compiled and evaluated to a deeply equal value of the same type on the values observed.",
         "Trusted: the Go compiler, reflect, harness/dump (canonical dumper) and harness/valgen. Scalars are untyped constants by design, so assignability is what is required of them.",
         "DESIGN.md 4/C10"),
 "C11": ("exploration",
         "the Go type checker as runtime judge: seeded closed type expressions rendered by the real dumper/namer from go/types types and from compiled reflect types, then type-checked and compared with types.Identical",
         "Seeded type expressions up to depth 4/5 over the stated grammar, two routes (go/types over fabricated packages; reflect over a compiled catalogue incl. 17 generic instantiations and embedding structs), three target kinds (own package, other package, tracker with clashing names): the rendered text must type-check in `package target` with exactly the tracker's imports and denote an identical type; qualifiers must be the tracker names in order. Held on the expressions observed.",
         "Trusted: go/types (Identical, Instantiate), go/parser, harness/typgen. Route A packages are fabricated; real-toolchain compilation of generated files is covered by the pipeline checks.",
         "DESIGN.md 4/C11"),
 "C15": ("exploration",
         "exhaustive small-scope + seeded random differential monitor: reference strings generated from the grammar as trees; the real parser/printer/namer must reproduce the tree, the string and the expected import rewriting",
         "All reference trees for (depth<=1,width<=3,5 paths,3 idents) and (depth<=2,width<=3,2 paths,1 ident) [quick], plus (depth<=3,width<=2) and a wider depth-2 space [thorough], plus seeded random trees up to depth 5/width 4: ParseTypeRef tree equality, String round trip, Walk pre-order, ParseRef/PkgImportPathAndExpose agreement, ID(s) rewriting and exact import registration. Exhaustive within the stated bounds, sampled beyond.",
         "Trusted: the tree generator/printer in harness/internal/props/c15 (the grammar of the statement). Identifiers and path segments come from small fixed sets.",
         "DESIGN.md 4/C15"),
 "C19": ("exploration",
         "exhaustive small-scope enumeration + seeded random inputs through the real Split/converters with invariant assertions, 8-goroutine purity comparison under the Go race detector, cross-process digests",
         "Every string up to length 4 (quick) / 6 (thorough) over a 14-symbol alphabet (letters of all classes, digits, punctuation, title-case, invalid UTF-8) plus random long strings: Split never panics, words non-empty and concatenating to the input, invalid UTF-8 => [input]; each converter total, equal on repeat, equal across 8 concurrent goroutines (-race build) and across worker processes.",
         "Trusted: the Go race detector (sees only the interleavings produced). golang.org/x/text is treated as part of the code under test.",
         "DESIGN.md 4/C19"),
 "C20": ("exploration",
         "runtime monitoring of the real inflector: table-driven metamorphic oracle f(p+w)==p+f(w), totality/purity assertions, and recorded concurrent call histories checked directly, by porcupine (write-once register per key) and by the Go race detector",
         "Every irregular / uninflected word x 3 case variants x 17 boundary prefixes x both operations, fold twins, non-ASCII and random inputs; 240 (quick) / 3000 (thorough) barrier rounds of 32 goroutines at GOMAXPROCS 2/4/16 with keys fresh to each round, -race build; history checked against sequentially known values and with porcupine. Evidence reports overlapping same-key call pairs and distinct completion orders observed.",
         "Trusted: porcupine v1.3.0, the Go race detector, the prefix-preservation law taken from the statement. Word boundary = ASCII punctuation/space as in the statement.",
         "DESIGN.md 4/C20"),
 "C01": ("exploration",
         "runtime monitor over real Execute runs: seeded modules x scripted generators rendering 30 declaration shapes; each written file judged by go/parser, token-stream comparison with the independently formatted rendered text, go/format + gofumpt fixed-point checks, gofmt -l and go build",
         "48 (quick) / ~1500 (thorough) seeded modules (3 module paths, 7 go directives, 1-3 packages, package name != dir) are generated by the real Execute with three scripted generators; every written file must parse, open with a comment naming its generator, carry the target's package clause, preserve the rendered declarations at token level, be a fixed point of go/format and gofumpt for the module's language version, and the module must build. Held on the files observed.",
         "Trusted: go/parser, go/scanner, go/format, mvdan.cc/gofumpt (the same libraries gengo links, applied to the harness's own assembly), the Go compiler.",
         "DESIGN.md 4/C01"),
 "C02": ("fault_enumeration",
         "fault injection with enumeration of every fault point per scenario: generator errors / unparseable output / swallowed sentinels in-process, process death by SIGKILL in a child process at every generator callback and every verif hook point; oracles over tree snapshots, error text and follow-up runs",
         "For each scenario (3 quick / 32 thorough) EVERY fault point is executed: error at each GenerateType index, each deferred callback, unparseable rendering, alias error, wrapped ErrSkip/ErrIgnore, 'skip'-text error, unwritable destination, panic, and SIGKILL inside each GenerateType / callback and at the n-th hit of every internal point. Checked: error text, failing file byte-identical, gengo.sum byte-identical, allow-set, written files parse, follow-up run regenerates, recovery to the uninterrupted-run tree.",
         "Process death = SIGKILL of the gengo process; file-system crash consistency (unsynced data) is not modelled. Trusted: the verif hook's placement, sha256 snapshots.",
         "DESIGN.md 4/C02"),
 "C04": ("exploration",
         "metamorphic runtime monitor: the same adversarial module generated repeatedly in-process (fresh map orders per load), in fresh child processes, under every entrypoint permutation and again on its own result; outputs compared byte for byte (the per-package dispatch order is part of the output)",
         "Per module (8 quick / ~150 thorough; >= 6 name clashes each): 5-7 in-process repetitions + 2-3 fresh processes + 10 entrypoint permutations/duplications from byte-identical restored trees at the same path, plus second and third runs on the result; all generated files (which carry the per-package call ordinals) and gengo.sum must be identical, and re-runs must change no generated file. An order dependence of the D11 kind escapes a module with probability < 2^-30.",
         "Trusted: byte comparison. The observing generator's own iteration is sorted; it ignores what generated files add to the package (no feedback).",
         "DESIGN.md 4/C04"),
 "C05": ("exploration",
         "metamorphic runtime monitor: files of package P from a run of {P} alone compared byte for byte with P's files from every run of a superset (all 15 subsets x 2 orders, All runs), with stateful generators built to expose leaked per-package state",
         "Modules of 4 packages sharing type names, with a counting-New stateful generator, a prototype-without-New generator carrying non-zero state, the real runtimedoc and deepcopy generators and per-package import sets whose names clash across packages; for every subset/order/All run each package's files must equal its alone-run files, New calls must equal executed packages, the prototype must never be used.",
         "Trusted: byte comparison; restored trees are byte-identical.",
         "DESIGN.md 4/C05"),
 "C06": ("exploration",
         "online event-log monitor against a reference model: recording generators + verif hook produce an ordered log of real Execute runs over synthetic packages; the expected call multiset and Defer ordering come from an independent tag-precedence/enablement model computed from the source the harness wrote",
         "32 (quick) / ~1000 (thorough) synthetic modules with every declaration kind and tags at global / package / declaration level (plus decoys in detached and trailing comments), five generators with prefix-related names; observed GenerateType/GenerateAliasType multiset must equal the model's, every call must concern a package-scope type of the processed package, every deferred callback runs once, after the last GenerateType, before the first write, seeing the old file, with its marker in the final file.",
         "Trusted: the 20-line enablement model (statement), the synth generator's bookkeeping of what it wrote.",
         "DESIGN.md 4/C06"),
 "C07": ("exploration",
         "tree-snapshot monitor (sha256+mode of every path before/after real Execute runs) over seeded layouts x behaviour matrices, plus strace -f syscall logs of child-process runs in the thorough tier",
         "50 (quick) / ~1600 (thorough) configurations: look-alikes, stale outputs, unselected packages, three base names, All on/off, 7 behaviours per (package, generator), previous outputs; changed paths must be own outputs of executed packages (+gengo.sum iff All), file-exists-iff-rendered, ErrIgnore keeps bytes, stale members removed. Thorough: 96 runs under strace, no mutating syscall under the module outside the allow-set.",
         "Trusted: sha256 snapshots, strace's view of syscalls. Non-Go <base>.* files may be kept or removed.",
         "DESIGN.md 4/C07"),
 "C08": ("exploration",
         "model-based runtime monitor: enumerated and random histories of edits / cache manipulations / runs are executed against the real code; after every run the observed executed/cached sets and gengo.sum are compared with a reference state machine (own Hash1 implementation)",
         "All single operations (8 edit kinds x packages, 7 sum-file corruptions) followed by each of 5 run kinds from 3 start states, with/without a root package (704 histories quick), plus random histories up to length 10/14: cached(p) implies not Force, readable sum, entry == H(p at load), H != empty; completeness; sum file content and read-back after success; unchanged after failure / non-All; convergence within 3 further runs.",
         "Trusted: the harness's Hash1 (written from the h1: definition), hook events cross-checked with generator New logs. 'unchanged => cached' only at convergence.",
         "DESIGN.md 4/C08"),
 "C12": ("exploration",
         "differential runtime monitor: source files generated from a layout grammar (every adjacency of doc / detached / trailing comments) are loaded by the real types.Load; Doc/Comment of every object compared with expectations derived from the layout; ExtractCommentTags vs a reference splitter",
         "40 (quick) / ~600 (thorough) packages x 2 files of types, fields, consts, vars (grouped and ungrouped) with 8 doc shapes x 3 trailing shapes and unique markers; ~3300 / ~70000 declarations compared (doc lines, tag map, trailing lines); 48000 / 480000 random tag line lists against the reference splitter.",
         "Trusted: go list / go/packages, go/types scopes to find the objects; comment text avoids what go/ast's Text() normalises.",
         "DESIGN.md 4/C12"),
 "C13": ("exploration",
         "differential runtime monitor: every accessor of every package of the real dependency closure (~200 packages, loaded repeatedly) and of synthetic modules compared with the go/types universe of the same load",
         "Per package: Types/Constants/Functions tables vs Scope() (names and object identity), lookups, probes of every function-local declaration and type parameter found in the syntax, MethodsOf vs Named.Method (generic, alias receivers, interfaces), Imports() vs Package.Imports() with identity to Universe.Package, LocateInPackage/SourceDir for module packages. 2 (quick) / 10 (thorough) corpus loads + 90 / 2400 synthetic packages.",
         "Trusted: go/types of the same load.",
         "DESIGN.md 4/C13"),
 "C14": ("exploration",
         "supervised execution monitor: ResultsOf called for every function of the real dependency closure (~11 000) and of generated adversarial packages inside worker processes with a 64 MiB stack cap and per-function begin markers (fatal errors attributed, batch resumed); soundness judged by go/types assignability, exactness on literal-only functions",
         "Corpus (11 250 functions) + 2200 (quick) / ~60 000 (thorough) generated functions (recursion at every result index, mutual / 3-cycles, closures with fewer/equal/more/permuted results, named results, forwarding, interfaces, generics, curried calls) + cross-package queries: no panic/fatal error, n lists, non-empty, alternatives assignable, stable; literal-only functions exact in source order.",
         "Termination is restated as 'returns inside a 64 MiB stack'; a generous watchdog yields inconclusive. Trusted: types.AssignableTo.",
         "DESIGN.md 4/C14"),
 "C16": ("exploration",
         "compiled-and-executed check program as oracle: seeded documented packages run through the real runtimedoc generator; a generated in-package test calls RuntimeDoc for every type / field / delegation / negative query and compares with the text the harness wrote",
         "64 (quick) / ~770 (thorough) packages with hostile doc text (quotes, backslashes, backquotes, %, @, Unicode, tabs, blank lines, tag lines, leading names, block comments, trailing-comment decoys), generic and embedding structs: must compile; type docs, field docs, delegated fields, unlisted / unknown names all compared.",
         "Trusted: the Go compiler; expectation derivation (tag lines removed, leading name trimmed) follows the statement. Embedded pointers are non-nil; no [[embed]] syntax.",
         "DESIGN.md 4/C16"),
 "C17": ("exploration",
         "compiled-and-executed check program as oracle: seeded type graphs run twice through the real deepcopy generator (byte comparison of run 1 vs run 2), compiled, and exercised by a generated test that fills, copies, mutates every reachable container of the copy and compares the original with an independent clone",
         "32 (quick) / ~640 (thorough) packages of 8-14 types in the stated domain: nil copies, DeepEqual for DeepCopy and DeepCopyInto, no sharing after append/assign into every slice/map at any by-value nesting depth (thousands of mutations counted), first run == second run, package builds.",
         "Trusted: the Go compiler, reflect.DeepEqual, the reflection-based filler/cloner/mutator. Out-of-domain shapes are not generated.",
         "DESIGN.md 4/C17"),
 "C18": ("exploration",
         "compiled-and-executed check program as oracle: seeded origin structs x omit/replace sets run through the real partialstruct generator; a generated test reflects over generated vs origin struct and exercises DeepCopyAs; negative declarations must be rejected with an error and no file",
         "64 (quick) / ~640 (thorough) packages of 1-4 partial structs (ungrouped and grouped): field names/order/types/tags mirror the origin minus omitted, replaced fields use the replacement type, nil copy, retained fields DeepEqual, omitted fields zero; 5 negative shapes rejected naming generator and package, no file written.",
         "Trusted: the Go compiler, reflect. Origin fields exported and not embedded.",
         "DESIGN.md 4/C18"),
}

NOT_YET = {}

# additions made after the seeded-change rounds (appended to the level text of the check)
ADDENDA = {
 "C06": " Package tags are spread over the package docs of several files; //line directives between declarations.",
 "C18": " Also: an origin declared in the same package with unexported and blank fields; negatives with exported names and of func / interface / slice / map / named-scalar kinds.",
 "C17": " Field names include underscore-prefixed, non-ASCII and blank ones; types may be enabled by the interfaces sub-tag alone.",
 "C15": " Identifiers include multi-byte letters (exhaustive space + random trees).",
 "C08": " A third of the histories use directory names that sort after gengo.sum (with a root package gengo.sum is then the first name in the module root).",
 "C01": " Also: modules carry long stale <file>.go.tmp left-overs; in half of them every generated file is edited in place (same length, still valid Go) and generated again - it must come back byte-identical; own-module imports next to std imports (module paths without a dot). A quarter of the packages get white-space-only renderings over a previous output; rendered text includes printf verbs and percent signs; a directed search keeps shape sequences that need several formatter passes.",
 "C03": " The path pool includes third-party paths that end in a std package's full path and look-alike struct pairs (typgen.TwinStruct) plus defined pointer/slice/array/channel types. Every snippet value is rendered a second time, in reverse order, into a second writer with its own import table; identifiers include multi-byte letters; a value literal holding two types with equal package name and type name (apps/v1.Spec, core/v1.Spec) is rendered and every qualifier checked against the import table.",
 "C04": " The observing generator also renders what Decl(pos), LocateInPackage, Context.Package and SourceDir answer; packages hold case-twin type names (T7/t7), same-name dependency packages and are regenerated incrementally vs. in full. Cross-module cases: entrypoints as import paths over two modules in every order, then two forced runs on the result (generated files must be a fixed point). One recorded open finding (D35, known_findings.json) is printed as KNOWN-FINDING.",
 "C05": " Also: an analysing generator renders ResultsOf for every function of the package and of its module-local imports (diamond and mutually recursive call chains across packages), and a go.work workspace scenario runs packages of 2-3 modules with different go directives / dot-less module paths alone vs. together. Process-wide snippet values are rendered into every package; the same struct type is held by a struct of its own package and by one of an importing package.",
 "C07": " Layouts include packages without any type, alias-only packages, nested and look-alike sibling modules, dotted base names and stale temp files. Also: mixed-case generator and base names, wildcard and import-path entrypoints, a package whose path repeats the module path, //line directives in stale outputs and user files, runs started from a package directory; an inotify monitor records every path touched during the run.",
 "C09": " Every snippet is rendered twice through the same writer; the second rendering must append the same bytes.",
 "C10": " Half of the strings are compositions of fragments (all line ends, both quote characters, NUL, BOM, U+2028/9, invalid UTF-8, comment and template metacharacters).",
 "C11": " Expressions include look-alike struct pairs that differ in exactly one place (possibly behind a pointer) and defined types of every underlying kind.",
 "C12": " Three passes: layout order, reverse order, and through a running generator (Context.Doc, then Package.Doc/Comment, then Context.Doc again for every type and field); a third of the documented declarations are named after the first word of their doc. Layouts include group doc comments, single-member groups, imports with trailing comments directly above the first declaration, //line directives and opening-line notes.",
 "C13": " The synthetic modules require three replaced modules (sibling directory, nested module, short path with a long replacement directory); accessor panics are attributed.",
 "C14": " The first answer is snapshotted before any later call (a shared, later-mutated slice cannot hide a difference) and must still print the same afterwards; cross-package queries q.ResultsOf(p.F) included. A second universe loaded from the same sources is asked every generated function in reverse order; answers must equal the first universe's.",
 "C16": " Fields built from earlier same-package types (value, pointer, slice, map value; generic instantiations) and own fields that shadow promoted ones are generated. Multi-line fields and declarations with a comment trailing their closing line sit above undocumented fields / types.",
 "C19": " Also: first-use cases (a stand-alone -race binary linking only camelcase + inflector whose very first calls are made by 16-96 goroutines leaving a barrier), many-distinct order independence (200 000 / 1 000 000 distinct inputs forwards in one fresh process, backwards in another), held Split results re-checked after later calls.",
 "C20": " Also: first-use cases (stand-alone -race binary, first calls concurrent) and many-distinct order independence (200 000 / 1 000 000 distinct inputs through one process forwards and another backwards - enough for birthday collisions in any 32-bit key space).",
}

# widenings of the second session (rounds l-n of seeded changes)
ADDENDA2 = {
 "C01": " The reference text is concatenated by the harness's own collecting snippet (it does not pass through gengo's writer); single fragments of 250 B - 70 KB sit between small ones in one Render call; case 'overlap': two Executors of one process, the first held at each hook point around its file write while the second runs completely, and four at once - every file must equal the one its package gets when generated alone.",
 "C02": " After a death inside a file write a run whose generator FAILS in the package holding the leftover temporary file comes first: the error must be returned and gengo.sum left alone.",
 "C03": " References also pass type-checker objects (snippet.ID(*types.TypeName)), PkgExposeFor / PkgExposeOf of compiled generic instantiations with foreign type arguments, and templates with package-carrying arguments the format never mentions.",
 "C04": " Packages spread their types over several files (holders sorting before what they hold); one template call brings in several new packages with clashing base names.",
 "C05": " Docs of own and imported declarations are rendered through Context.Doc (texts that survive one removal of the leading name only); packages in which a stateful generator changes state without rendering; a scripted New that derives the instance from its receiver.",
 "C06": " One generator renders from deferred callbacks only; local types and constants inside func literals of package-level var initialisers.",
 "C07": " Force is a configuration axis.",
 "C08": " Two local packages share a package name.",
 "C09": " Snippets over single-use sequences (direct, as T argument, nested, through Fragments).",
 "C11": " any / error embedded in anonymous struct types.",
 "C12": " Embedded fields (every doc x trailing shape), quoted / backquoted / rune-literal tag values, prose that looks like a directive (word:word).",
 "C13": " Every position of every file (header comments, build constraints, declaration boundaries, first and last byte) is located; accessors are asked for every universe name the package does not declare.",
 "C14": " Recursion through func literals (nine families), fields of different instantiations of a generic struct, compound assignments.",
 "C15": " Slash-less import paths (time, context, sync).",
 "C16": " Promoted fields are also asked on the zero value (nil embedded pointer) where the shape allows.",
 "C17": " Same-package interface types as declarations and as field types, declarations spread over several files, holders sorting before their dependencies, tags in multi-line block comments.",
 "C18": " Foreign types from keyword-named and digit-leading directories, twin fields (Name / name) with one of them omitted, containers that differ only behind a pointer.",
}

def main():
    props = [json.loads(l) for l in open(os.path.join(ROOT, "properties.jsonl"))]
    hooks_commits = []
    try:
        out = subprocess.run(["git", "-C", "/repo", "log", "--format=%h %s"], capture_output=True, text=True).stdout
        for l in out.splitlines():
            h, _, subj = l.partition(" ")
            if subj.startswith("verif:"):
                hooks_commits.append(h)
    except Exception:
        pass
    checks = []
    na = []
    for p in props:
        pid = p["id"]
        if pid in CHECKS:
            cat, tech, text, note, ref = CHECKS[pid]
            text += ADDENDA.get(pid, "")
            text += ADDENDA2.get(pid, "")
            checks.append({
                "property_id": pid,
                "quick_cmd": f"./check {pid} quick",
                "thorough_cmd": f"./check {pid} thorough",
                "evidence_file": f"/verif/evidence/{pid}.json",
                "replay_cmd_template": f"./check {pid} --replay {{path}}",
                "engine": "vcheck",
                "level_claimed": {"category": cat, "text": text, "design_ref": ref},
                "level_note": note,
                "technique": tech,
            })
        else:
            na.append({"property_id": pid, "reason": NOT_YET.get(pid, "runtime monitoring applies (see DESIGN.md section 4) but the check is not built yet in this round; not claimed until it is")})
    m = {
        "version": 1,
        "setup_cmd": "./setup.sh",
        "hooks": {
            "guard": "verif (Go build tag)",
            "enable": "go build -tags verif (the harness module replaces github.com/octohelm/gengo with /repo, so every ./check rebuilds from /repo's working tree)",
            "baseline_off_cmd": "./baseline.sh",
            "source_commits": hooks_commits,
            "add_only": True,
        },
        "engines": [{
            "name": "vcheck",
            "path": "/verif/harness",
            "serves_properties": sorted(CHECKS.keys()),
            "kind_free_text": "Go coordinator + worker sub-processes executing the real gengo code (linked from /repo) on seed-determined workloads; oracles: reference implementations, Go front end, compiled check programs, tree snapshots, -race, porcupine",
        }],
        "checks": checks,
        "not_applicable": na,
        "notes": "Runtime-monitoring family only. Exit codes of ./check: 0 held on everything observed, 1 violation (VIOLATION line + replay file), 2 /repo does not build, 3 inconclusive (watchdog / too few observations). VERIF_SEED selects the seed (default 1). known_findings.json lists repaired defects (fixed:) and open findings.",
    }
    with open(os.path.join(ROOT, "MANIFEST.json"), "w") as f:
        json.dump(m, f, indent=1)
        f.write("\n")

if __name__ == "__main__":
    main()
