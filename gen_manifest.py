#!/usr/bin/env python3
"""Regenerates MANIFEST.json from the table below (kept in one place so that the manifest is
always valid and in step with the checks that exist)."""
import json, os, subprocess

ROOT = os.path.dirname(os.path.abspath(__file__))

# id -> (category, technique, level text, level note, design ref)
CHECKS = {
 "C09": ("exploration",
         "differential runtime monitor: every render of the real snippet package compared with a reference renderer written from the statement; exhaustive small-scope + seeded random inputs",
         "Every T format up to length 4 (quick) / 6 (thorough) over an 11-symbol alphabet under >=14 binding environments, every Sprintf format up to length 5 / 7 over 7 symbols x 6 argument lists, plus seeded long random formats and Comment/GoDirective/Snippets/Fragments workloads, are rendered by the real code and compared (panic flag + bytes) with an independent reference. Held = no disagreement on the executions observed; not a proof for longer formats.",
         "Trusted: the reference renderer in harness/internal/props/c09 (80 lines, written from the statement) and Go's strconv.Quote for the expected value literals. A bare '@' is judged by a relaxed oracle (statement silent).",
         "DESIGN.md 4/C09"),
 "C03": ("exploration",
         "runtime monitor over the real import tracker/namer: seeded adversarial path sets x reference kinds, name-stability and exactness assertions after every render, and the Go type checker (go/types over fabricated packages) judging the assembled import block + references",
         "Thousands of seeded path sets (clash families: std twins, 1-3 clashing trailing segments, vN, apis/domain, keywords, digits, punctuation/case twins, single-segment, the target itself) are referenced through 7 reference kinds via one SnippetWriter+tracker; after every render the names seen so far must be unchanged, qualifiers must equal Imports()[path], and at the end the import set must be exact, names distinct valid identifiers, and go/types must accept the file and resolve every reference to the intended type. Held = no disagreement on the executions observed.",
         "Trusted: go/parser, go/types, the fabricated package universe (harness/typgen). No particular name is demanded. Paths whose last segment is a predeclared identifier are not generated.",
         "DESIGN.md 4/C03"),
 "C10": ("exploration",
         "compiled-and-executed check program as oracle: seeded values rendered by the real dumper, compiled by the Go compiler into a test binary of the fixture package, evaluated and compared (canonical dump) with the originals",
         "600 (quick) / 24000 (thorough) seeded values over ~110 root types with edge values are rendered via Value and Sprintf(%v) into a foreign and into the own package, parsed, compiled (all compiler errors attributed to cases by line), executed and compared with the originals; rendering is repeated in-process and in a second process for text determinism. Held = every literal compiled and evaluated to a deeply equal value of the same type on the values observed.",
         "Trusted: the Go compiler, reflect, harness/dump (canonical dumper) and harness/valgen. Scalars are untyped constants by design, so assignability is what is required of them.",
         "DESIGN.md 4/C10"),
 "C11": ("exploration",
         "the Go type checker as runtime judge: seeded closed type expressions rendered by the real dumper/namer from go/types types and from compiled reflect types, then type-checked and compared with types.Identical",
         "Seeded type expressions up to depth 4/5 over the stated grammar, two routes (go/types over fabricated packages; reflect over a compiled catalogue incl. 17 generic instantiations and embedding structs), three target kinds (own package, other package, tracker with clashing names): the rendered text must type-check in `package target` with exactly the tracker's imports and denote an identical type; qualifiers must be the tracker names in order. Held on the expressions observed.",
         "Trusted: go/types (Identical, Instantiate), go/parser, harness/typgen. Route A packages are fabricated; real-toolchain compilation of generated files is covered by the pipeline checks.",
         "DESIGN.md 4/C11"),
 "C15": ("exploration",
         "exhaustive small-scope + seeded random differential monitor: reference strings generated from the grammar as trees; the real parser/printer/namer must reproduce the tree, the string and the expected import rewriting",
         "All reference trees for (depth<=1,width<=3,5 paths,3 idents) and (depth<=2,width<=3,2 paths,1 ident) [quick], plus (depth<=3,width<=2) and a wider depth-2 space [thorough], plus seeded random trees up to depth 5/width 4: ParseTypeRef tree equality, String round trip, Walk pre-order, ParseRef/PkgImportPathAndExpose agreement, ID(s) rewriting and exact import registration. Exhaustive within the stated bounds, sampled beyond.",
         "Trusted: the tree generator/printer in harness/internal/props/c15 (the grammar of the statement). Identifiers and path segments come from small fixed sets.",
         "DESIGN.md 4/C15"),
 "C19": ("exploration",
         "exhaustive small-scope enumeration + seeded random inputs through the real Split/converters with invariant assertions, 8-goroutine purity comparison under the Go race detector, cross-process digests",
         "Every string up to length 4 (quick) / 6 (thorough) over a 14-symbol alphabet (letters of all classes, digits, punctuation, title-case, invalid UTF-8) plus random long strings: Split never panics, words non-empty and concatenating to the input, invalid UTF-8 => [input]; each converter total, equal on repeat, equal across 8 concurrent goroutines (-race build) and across worker processes.",
         "Trusted: the Go race detector (sees only the interleavings produced). golang.org/x/text is treated as part of the code under test.",
         "DESIGN.md 4/C19"),
 "C20": ("exploration",
         "runtime monitoring of the real inflector: table-driven metamorphic oracle f(p+w)==p+f(w), totality/purity assertions, and recorded concurrent call histories checked directly, by porcupine (write-once register per key) and by the Go race detector",
         "Every irregular / uninflected word x 3 case variants x 17 boundary prefixes x both operations, fold twins, non-ASCII and random inputs; 240 (quick) / 3000 (thorough) barrier rounds of 32 goroutines at GOMAXPROCS 2/4/16 with keys fresh to each round, -race build; history checked against sequentially known values and with porcupine. Evidence reports overlapping same-key call pairs and distinct completion orders observed.",
         "Trusted: porcupine v1.3.0, the Go race detector, the prefix-preservation law taken from the statement. Word boundary = ASCII punctuation/space as in the statement.",
         "DESIGN.md 4/C20"),
}

NOT_YET = {}

def main():
    props = [json.loads(l) for l in open(os.path.join(ROOT, "properties.jsonl"))]
    hooks_commits = []
    try:
        out = subprocess.run(["git", "-C", "/repo", "log", "--format=%h %s"], capture_output=True, text=True).stdout
        for l in out.splitlines():
            h, _, subj = l.partition(" ")
            if subj.startswith("verif:"):
                hooks_commits.append(h)
    except Exception:
        pass
    checks = []
    na = []
    for p in props:
        pid = p["id"]
        if pid in CHECKS:
            cat, tech, text, note, ref = CHECKS[pid]
            checks.append({
                "property_id": pid,
                "quick_cmd": f"./check {pid} quick",
                "thorough_cmd": f"./check {pid} thorough",
                "evidence_file": f"/verif/evidence/{pid}.json",
                "replay_cmd_template": f"./check {pid} --replay {{path}}",
                "engine": "vcheck",
                "level_claimed": {"category": cat, "text": text, "design_ref": ref},
                "level_note": note,
                "technique": tech,
            })
        else:
            na.append({"property_id": pid, "reason": NOT_YET.get(pid, "runtime monitoring applies (see DESIGN.md section 4) but the check is not built yet in this round; not claimed until it is")})
    m = {
        "version": 1,
        "setup_cmd": "./setup.sh",
        "hooks": {
            "guard": "verif (Go build tag)",
            "enable": "go build -tags verif (the harness module replaces github.com/octohelm/gengo with /repo, so every ./check rebuilds from /repo's working tree)",
            "baseline_off_cmd": "./baseline.sh",
            "source_commits": hooks_commits,
            "add_only": True,
        },
        "engines": [{
            "name": "vcheck",
            "path": "/verif/harness",
            "serves_properties": sorted(CHECKS.keys()),
            "kind_free_text": "Go coordinator + worker sub-processes executing the real gengo code (linked from /repo) on seed-determined workloads; oracles: reference implementations, Go front end, compiled check programs, tree snapshots, -race, porcupine",
        }],
        "checks": checks,
        "not_applicable": na,
        "notes": "Runtime-monitoring family only. Exit codes of ./check: 0 held on everything observed, 1 violation (VIOLATION line + replay file), 2 /repo does not build, 3 inconclusive (watchdog / too few observations). VERIF_SEED selects the seed (default 1). known_findings.json lists repaired defects (fixed:) and open findings.",
    }
    with open(os.path.join(ROOT, "MANIFEST.json"), "w") as f:
        json.dump(m, f, indent=1)
        f.write("\n")

if __name__ == "__main__":
    main()
