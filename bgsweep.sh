#!/usr/bin/env bash
# ./bgsweep.sh <tier> <seed> [ids...] : for `vp run --with-repo -- ./bgsweep.sh thorough 2`; runs the checks of THIS snapshot against
# the snapshot of /repo's HEAD ($VP_RUN_REPO), so that seedtest.sh / benigntest.sh patching /repo's working tree cannot disturb it.
# Results are exploration only, never evidence.
set -u
cd "$(dirname "$0")"
TIER="${1:-thorough}"; SEED="${2:-1}"; shift 2 || true
IDS="${*:-C01 C02 C03 C04 C05 C06 C07 C08 C09 C10 C11 C12 C13 C14 C15 C16 C17 C18 C19 C20}"
if [ -n "${VP_RUN_REPO:-}" ]; then
  sed -i "s#=> /repo#=> $VP_RUN_REPO#" harness/go.mod
  export VERIF_REPO="$VP_RUN_REPO"
fi
export VERIF_SEED="$SEED"
mkdir -p logs
for ID in $IDS; do
  S=$(date +%s)
  ./check $ID $TIER > logs/$ID.$TIER.$SEED.log 2>&1
  RC=$?
  E=$(date +%s)
  echo "$ID seed=$SEED rc=$RC $((E-S))s $(grep -E "^$ID tier" logs/$ID.$TIER.$SEED.log | cut -c1-160)"
  if [ $RC -ne 0 ]; then grep -E '^(VIOLATION|KNOWN-FINDING|INCONCLUSIVE)' logs/$ID.$TIER.$SEED.log | head -5; fi
done
