// Package typgen generates closed Go type expressions over a fabricated universe of packages and
// judges rendered type text with the Go type checker: a check file is assembled from the import
// table a tracker produced and the rendered texts, type-checked by go/types against an importer that
// serves the fabricated packages, and every declared variable's type is compared (types.Identical)
// with the type the expression tree denotes.
package typgen

import (
	"fmt"
	"go/ast"
	"go/importer"
	"go/parser"
	"go/scanner"
	"go/token"
	"go/types"
	"math/rand"
	"sort"
	"strings"
)

// Decls is the set of type declarations every fabricated package (and the target package) carries.
const Decls = `
type T int
type U string
type S struct{ X int }
type E interface{ M() }
type F func(int) string
type M map[string]int
type List[A any] struct{ Items []A }
type Pair[A any, B any] struct{ K A; V B }
type Buffer struct{ n int }
type Duration int64
type Rand struct{}
type Template struct{}
type URL struct{}
type Time struct{}
type PS *S
type LS []S
type AR [2]T
type CH chan T
type Größe int
type A = T
`

// (defined types of every underlying kind: basic, struct, interface, func, map, pointer, slice, array, channel)
var NamedPlain = []string{"T", "U", "S", "E", "F", "M", "Buffer", "Duration", "Rand", "Template", "URL", "Time", "PS", "LS", "AR", "CH", "Größe"}
var NamedGeneric = map[string]int{"List": 1, "Pair": 2}

// World is a fabricated universe: any import path resolves to a package that declares Decls.
type World struct {
	Fset *token.FileSet
	pkgs map[string]*types.Package
	n    int
}

func NewWorld() *World {
	return &World{Fset: token.NewFileSet(), pkgs: map[string]*types.Package{}}
}

func (w *World) Import(path string) (*types.Package, error) {
	if p, ok := w.pkgs[path]; ok {
		return p, nil
	}
	if path == "unsafe" {
		return types.Unsafe, nil
	}
	w.n++
	name := fmt.Sprintf("fab%d", w.n)
	f, err := parser.ParseFile(w.Fset, name+".go", "package "+name+"\n"+Decls, 0)
	if err != nil {
		return nil, err
	}
	conf := types.Config{Importer: importer.Default()}
	p, err := conf.Check(path, w.Fset, []*ast.File{f}, nil)
	if err != nil {
		return nil, err
	}
	w.pkgs[path] = p
	return p, nil
}

// Expr is a closed type expression.
type Expr struct {
	Kind   string  `json:"k"` // basic named ptr slice array map chan struct error any
	Name   string  `json:"n,omitempty"`
	Path   string  `json:"p,omitempty"`
	Args   []*Expr `json:"a,omitempty"`
	Elem   *Expr   `json:"e,omitempty"`
	Key    *Expr   `json:"key,omitempty"`
	Len    int     `json:"len,omitempty"`
	Fields []Field `json:"f,omitempty"`
}

type Field struct {
	Name     string `json:"n"`
	Type     *Expr  `json:"t"`
	Tag      string `json:"tag,omitempty"`
	Embedded bool   `json:"emb,omitempty"`
}

// String prints the expression in Go syntax with full import paths as qualifiers (for reports / keys).
func (e *Expr) String() string {
	return e.Source(func(p string) string { return p })
}

// Source prints Go source, qualifying named types through qual(path); qual returns "" for the local package.
func (e *Expr) Source(qual func(path string) string) string {
	switch e.Kind {
	case "basic", "error", "any":
		return e.Name
	case "named":
		var b strings.Builder
		if q := qual(e.Path); q != "" {
			b.WriteString(q + ".")
		}
		b.WriteString(e.Name)
		if len(e.Args) > 0 {
			b.WriteString("[")
			for i, a := range e.Args {
				if i > 0 {
					b.WriteString(",")
				}
				b.WriteString(a.Source(qual))
			}
			b.WriteString("]")
		}
		return b.String()
	case "ptr":
		return "*" + e.Elem.Source(qual)
	case "slice":
		return "[]" + e.Elem.Source(qual)
	case "array":
		return fmt.Sprintf("[%d]%s", e.Len, e.Elem.Source(qual))
	case "map":
		return "map[" + e.Key.Source(qual) + "]" + e.Elem.Source(qual)
	case "chan":
		return "chan " + e.Elem.Source(qual)
	case "struct":
		var b strings.Builder
		b.WriteString("struct {")
		for i, f := range e.Fields {
			if i > 0 {
				b.WriteString("; ")
			}
			if !f.Embedded {
				b.WriteString(f.Name + " ")
			}
			b.WriteString(f.Type.Source(qual))
			if f.Tag != "" {
				b.WriteString(" `" + f.Tag + "`")
			}
		}
		b.WriteString("}")
		return b.String()
	}
	panic("bad kind " + e.Kind)
}

// RefString prints a named expression (with nested named/basic generic arguments) in gengo's reference
// syntax path.Name[arg,...]; ok=false if the expression is not expressible that way.
func (e *Expr) RefString() (string, bool) {
	switch e.Kind {
	case "basic":
		return e.Name, true
	case "named":
		var b strings.Builder
		if e.Path != "" {
			b.WriteString(e.Path + ".")
		}
		b.WriteString(e.Name)
		if len(e.Args) > 0 {
			b.WriteString("[")
			for i, a := range e.Args {
				if i > 0 {
					b.WriteString(",")
				}
				s, ok := a.RefString()
				if !ok {
					return "", false
				}
				b.WriteString(s)
			}
			b.WriteString("]")
		}
		return b.String(), true
	}
	return "", false
}

// Paths collects the package paths mentioned (pre-order, with repetitions).
func (e *Expr) Paths(out *[]string) {
	switch e.Kind {
	case "named":
		*out = append(*out, e.Path)
		for _, a := range e.Args {
			a.Paths(out)
		}
	case "ptr", "slice", "array", "chan":
		e.Elem.Paths(out)
	case "map":
		e.Key.Paths(out)
		e.Elem.Paths(out)
	case "struct":
		for _, f := range e.Fields {
			f.Type.Paths(out)
		}
	}
}

func (e *Expr) Depth() int {
	d := 0
	up := func(x *Expr) {
		if x != nil {
			if v := x.Depth() + 1; v > d {
				d = v
			}
		}
	}
	for _, a := range e.Args {
		up(a)
	}
	up(e.Elem)
	up(e.Key)
	for _, f := range e.Fields {
		up(f.Type)
	}
	return d
}

// Features lists grammar features for evidence histograms.
func (e *Expr) Features(set map[string]bool) {
	set[e.Kind] = true
	if e.Kind == "named" && len(e.Args) > 0 {
		set["generic-instance"] = true
		for _, a := range e.Args {
			if a.Kind == "named" && len(a.Args) > 0 {
				set["nested-generic"] = true
			}
		}
	}
	for _, a := range e.Args {
		a.Features(set)
	}
	if e.Elem != nil {
		e.Elem.Features(set)
	}
	if e.Key != nil {
		e.Key.Features(set)
	}
	for _, f := range e.Fields {
		if f.Embedded {
			set["embedded-field"] = true
		}
		if f.Tag != "" {
			set["struct-tag"] = true
		}
		f.Type.Features(set)
	}
}

var errorType = types.Universe.Lookup("error").Type()
var anyType = types.Universe.Lookup("any").Type()

// Resolver finds the named type object for (path, name); path == local resolves in the local package.
type Resolver func(path, name string) (types.Object, error)

// Types builds the go/types type the expression denotes. localPkg is used for struct field ownership.
func (e *Expr) Types(res Resolver, localPkg *types.Package) (types.Type, error) {
	switch e.Kind {
	case "basic":
		o := types.Universe.Lookup(e.Name)
		if o == nil {
			return nil, fmt.Errorf("no basic %s", e.Name)
		}
		return o.Type(), nil
	case "error":
		return errorType, nil
	case "any":
		return anyType, nil
	case "named":
		o, err := res(e.Path, e.Name)
		if err != nil {
			return nil, err
		}
		t := o.Type()
		if len(e.Args) == 0 {
			return t, nil
		}
		args := make([]types.Type, len(e.Args))
		for i, a := range e.Args {
			at, err := a.Types(res, localPkg)
			if err != nil {
				return nil, err
			}
			args[i] = at
		}
		return types.Instantiate(nil, t, args, true)
	case "ptr", "slice", "array", "chan":
		el, err := e.Elem.Types(res, localPkg)
		if err != nil {
			return nil, err
		}
		switch e.Kind {
		case "ptr":
			return types.NewPointer(el), nil
		case "slice":
			return types.NewSlice(el), nil
		case "array":
			return types.NewArray(el, int64(e.Len)), nil
		default:
			return types.NewChan(types.SendRecv, el), nil
		}
	case "map":
		k, err := e.Key.Types(res, localPkg)
		if err != nil {
			return nil, err
		}
		v, err := e.Elem.Types(res, localPkg)
		if err != nil {
			return nil, err
		}
		return types.NewMap(k, v), nil
	case "struct":
		var fs []*types.Var
		var tags []string
		for _, f := range e.Fields {
			ft, err := f.Type.Types(res, localPkg)
			if err != nil {
				return nil, err
			}
			fs = append(fs, types.NewField(token.NoPos, localPkg, f.Name, ft, f.Embedded))
			tags = append(tags, f.Tag)
		}
		return types.NewStruct(fs, tags), nil
	}
	return nil, fmt.Errorf("bad kind %s", e.Kind)
}

// ---------------------------------------------------------------------------------------
// generation

var Basics = []string{"bool", "int", "int8", "int16", "int32", "int64", "uint", "uint8", "uint16", "uint32", "uint64", "uintptr",
	"float32", "float64", "complex64", "complex128", "string", "byte", "rune"}

var comparableBasics = []string{"bool", "int", "int8", "int32", "int64", "uint", "uint8", "uint64", "uintptr", "float64", "string", "rune"}

var tags = []string{"", "", `json:"a"`, `json:"b,omitempty" validate:"@int[0,10]"`, `x:"\"q\""`, `name:"The name. Must be unique."`, `k:"a:b c"`}

type Gen struct {
	R     *rand.Rand
	Paths []string // candidate package paths (the target package may be among them)
}

func (g *Gen) named(depth int, comparableOnly bool) *Expr {
	p := g.Paths[g.R.Intn(len(g.Paths))]
	if !comparableOnly && depth > 0 && g.R.Intn(3) == 0 {
		// generic instantiation with named or basic arguments (possibly nested generic)
		name := "List"
		n := 1
		if g.R.Intn(2) == 0 {
			name, n = "Pair", 2
		}
		e := &Expr{Kind: "named", Path: p, Name: name}
		for i := 0; i < n; i++ {
			e.Args = append(e.Args, g.genericArg(depth-1))
		}
		return e
	}
	names := NamedPlain
	if comparableOnly {
		names = []string{"T", "U", "Duration", "Time", "URL"}
	}
	return &Expr{Kind: "named", Path: p, Name: names[g.R.Intn(len(names))]}
}

func (g *Gen) genericArg(depth int) *Expr {
	switch g.R.Intn(4) {
	case 0:
		return &Expr{Kind: "basic", Name: Basics[g.R.Intn(len(Basics)-2)]} // byte/rune would print as uint8/int32: identical anyway
	case 1:
		if depth > 0 {
			return g.named(depth, false)
		}
	}
	p := g.Paths[g.R.Intn(len(g.Paths))]
	return &Expr{Kind: "named", Path: p, Name: NamedPlain[g.R.Intn(len(NamedPlain))]}
}

func (g *Gen) key() *Expr {
	switch g.R.Intn(3) {
	case 0:
		return g.named(0, true)
	case 1:
		return &Expr{Kind: "array", Len: 1 + g.R.Intn(3), Elem: &Expr{Kind: "basic", Name: comparableBasics[g.R.Intn(len(comparableBasics))]}}
	}
	return &Expr{Kind: "basic", Name: comparableBasics[g.R.Intn(len(comparableBasics))]}
}

// Expr generates a type expression of at most the given depth.
func (g *Gen) Expr(depth int) *Expr {
	if depth <= 0 {
		switch g.R.Intn(6) {
		case 0:
			return &Expr{Kind: "error", Name: "error"}
		case 1:
			return &Expr{Kind: "any", Name: "any"}
		case 2, 3:
			return &Expr{Kind: "basic", Name: Basics[g.R.Intn(len(Basics))]}
		}
		return g.named(0, false)
	}
	switch g.R.Intn(10) {
	case 0:
		return &Expr{Kind: "ptr", Elem: g.Expr(depth - 1)}
	case 1:
		return &Expr{Kind: "slice", Elem: g.Expr(depth - 1)}
	case 2:
		return &Expr{Kind: "array", Len: g.R.Intn(5), Elem: g.Expr(depth - 1)}
	case 3:
		return &Expr{Kind: "map", Key: g.key(), Elem: g.Expr(depth - 1)}
	case 4:
		return &Expr{Kind: "chan", Elem: g.Expr(depth - 1)}
	case 5, 6:
		n := g.R.Intn(4)
		e := &Expr{Kind: "struct"}
		used := map[string]bool{}
		for i := 0; i < n; i++ {
			if g.R.Intn(12) == 0 {
				// an embedded predeclared interface: `any` / `error` are type NAMES and may be embedded; their
				// literal spellings (`interface {}`) may not (seeded change C11-n)
				pn := []string{"any", "error"}[g.R.Intn(2)]
				if !used[pn] {
					used[pn] = true
					e.Fields = append(e.Fields, Field{Name: pn, Type: &Expr{Kind: pn, Name: pn}, Embedded: true, Tag: tags[g.R.Intn(len(tags))]})
				}
				continue
			}
			if g.R.Intn(4) == 0 {
				// embedded named type by value or pointer
				nt := g.named(0, false)
				if nt.Name == "E" || nt.Name == "F" || nt.Name == "M" || nt.Name == "PS" || nt.Name == "LS" || nt.Name == "AR" || nt.Name == "CH" {
					nt.Name = "S"
				}
				if used[nt.Name] {
					continue
				}
				used[nt.Name] = true
				ft := nt
				if g.R.Intn(2) == 0 {
					ft = &Expr{Kind: "ptr", Elem: nt}
				}
				e.Fields = append(e.Fields, Field{Name: nt.Name, Type: ft, Embedded: true, Tag: tags[g.R.Intn(len(tags))]})
				continue
			}
			name := fmt.Sprintf("F%d", i)
			used[name] = true
			e.Fields = append(e.Fields, Field{Name: name, Type: g.Expr(depth - 1), Tag: tags[g.R.Intn(len(tags))]})
		}
		return e
	case 7:
		return g.named(depth, false)
	case 8:
		if depth >= 2 {
			return g.TwinStruct(depth)
		}
	}
	return g.Expr(depth - 1)
}

// TwinStruct returns struct{ A X; B X' } (sometimes behind pointers / slices / as map values) where X is a random
// struct type and X' is a copy of X that differs in exactly ONE place, possibly deep inside and behind a pointer: two
// types that look alike under any lossy rendering (a memo keyed by a short string, a hash of field names ...) but are
// different types.
func (g *Gen) TwinStruct(depth int) *Expr {
	return TwinStructWith(g.R, g.Expr, depth, g.altNamed)
}

// TwinStructWith: TwinStruct over any expression generator (altNamed may be nil: named leaves are then left alone).
func TwinStructWith(r *rand.Rand, mk func(depth int) *Expr, depth int, altNamed func(e *Expr, inKey bool) bool) *Expr {
	g := struct{ R *rand.Rand }{r}
	var x *Expr
	for tries := 0; ; tries++ {
		x = &Expr{Kind: "struct"}
		n := 1 + g.R.Intn(3)
		for i := 0; i < n; i++ {
			x.Fields = append(x.Fields, Field{Name: fmt.Sprintf("V%d", i), Type: mk(depth - 2), Tag: tags[g.R.Intn(len(tags))]})
		}
		if Twin(g.R, x.Clone(), altNamed) != nil || tries > 8 {
			break
		}
	}
	y := Twin(g.R, x.Clone(), altNamed)
	if y == nil {
		return x
	}
	wrap := func(e *Expr) *Expr {
		switch g.R.Intn(5) {
		case 0:
			return &Expr{Kind: "ptr", Elem: e}
		case 1:
			return &Expr{Kind: "slice", Elem: e}
		case 2:
			return &Expr{Kind: "map", Key: &Expr{Kind: "basic", Name: "string"}, Elem: e}
		}
		return e
	}
	fs := []Field{{Name: "A", Type: wrap(x)}, {Name: "B", Type: wrap(y)}}
	if g.R.Intn(2) == 0 {
		fs[0], fs[1] = Field{Name: "A", Type: fs[1].Type}, Field{Name: "B", Type: fs[0].Type}
	}
	if g.R.Intn(3) == 0 {
		fs = append(fs, Field{Name: "C", Type: wrap(x.Clone())})
	}
	return &Expr{Kind: "struct", Fields: fs}
}

func (g *Gen) altNamed(e *Expr, inKey bool) bool {
	if inKey || len(e.Args) > 0 {
		return false
	}
	if len(g.Paths) > 1 && g.R.Intn(2) == 0 {
		// the same type name in another package
		for tries := 0; tries < 8; tries++ {
			if p := g.Paths[g.R.Intn(len(g.Paths))]; p != e.Path {
				e.Path = p
				return true
			}
		}
	}
	for tries := 0; tries < 8; tries++ {
		if n := NamedPlain[g.R.Intn(len(NamedPlain))]; n != e.Name {
			e.Name = n
			return true
		}
	}
	return false
}

// Clone deep-copies an expression.
func (e *Expr) Clone() *Expr {
	if e == nil {
		return nil
	}
	c := *e
	c.Elem, c.Key = e.Elem.Clone(), e.Key.Clone()
	c.Args = nil
	for _, a := range e.Args {
		c.Args = append(c.Args, a.Clone())
	}
	c.Fields = nil
	for _, f := range e.Fields {
		f.Type = f.Type.Clone()
		c.Fields = append(c.Fields, f)
	}
	return &c
}

var twinBasics = []string{"bool", "int", "int8", "int16", "int32", "int64", "uint", "uint16", "uint32", "uint64", "float32", "float64", "string"}

// Twin changes e in exactly one place (a basic leaf, an array length, pointer <-> slice, a named leaf through
// altNamed, a field's tag or name) and returns it, or nil if e has no place to change. Embedded fields, generic
// arguments and (for named types) map keys are left alone.
func Twin(r *rand.Rand, e *Expr, altNamed func(e *Expr, inKey bool) bool) *Expr {
	type site struct {
		e     *Expr
		f     *Field
		inKey bool
	}
	var sites []site
	var walk func(e *Expr, inKey bool)
	walk = func(e *Expr, inKey bool) {
		if e == nil {
			return
		}
		switch e.Kind {
		case "basic", "array":
			sites = append(sites, site{e: e, inKey: inKey})
		case "named":
			if len(e.Args) == 0 && altNamed != nil && !inKey {
				sites = append(sites, site{e: e, inKey: inKey})
			}
			return
		case "ptr", "slice":
			if !inKey {
				sites = append(sites, site{e: e, inKey: inKey})
			}
		}
		walk(e.Elem, inKey)
		walk(e.Key, true)
		for i := range e.Fields {
			if e.Fields[i].Embedded {
				continue
			}
			sites = append(sites, site{f: &e.Fields[i]})
			walk(e.Fields[i].Type, inKey)
		}
	}
	walk(e, false)
	for tries := 0; tries < 16 && len(sites) > 0; tries++ {
		s := sites[r.Intn(len(sites))]
		switch {
		case s.f != nil:
			if r.Intn(2) == 0 {
				for _, t := range tags {
					if t != s.f.Tag && t != "" {
						s.f.Tag = t
						return e
					}
				}
			}
			s.f.Name += "x"
			return e
		case s.e.Kind == "basic":
			n := twinBasics[r.Intn(len(twinBasics))]
			if n == s.e.Name || (s.e.Name == "rune" && n == "int32") || (s.e.Name == "byte") || (s.e.Name == "uint8") {
				continue
			}
			s.e.Name = n
			return e
		case s.e.Kind == "array":
			s.e.Len++
			return e
		case s.e.Kind == "ptr":
			s.e.Kind = "slice"
			return e
		case s.e.Kind == "slice":
			s.e.Kind = "ptr"
			return e
		case s.e.Kind == "named":
			if altNamed(s.e, s.inKey) {
				return e
			}
		}
	}
	return nil
}

// ---------------------------------------------------------------------------------------
// the judge

// CheckCase is one rendered text to be judged.
type CheckCase struct {
	Rendered string
	Want     *Expr
}

type Verdict struct {
	Index int
	Msg   string
}

// Judge assembles `package target` + imports + Decls + `var C<i> <rendered>` and type-checks it.
// imports: path -> local name. Returns one verdict per failing case, plus file-level errors.
func Judge(w *World, targetPath string, imports map[string]string, cases []CheckCase) (bad []Verdict, fileErrs []string, src string) {
	var b strings.Builder
	b.WriteString("package target\n")
	paths := make([]string, 0, len(imports))
	for p := range imports {
		paths = append(paths, p)
	}
	sort.Strings(paths)
	b.WriteString("import (\n")
	for _, p := range paths {
		fmt.Fprintf(&b, "\t%s %q\n", imports[p], p)
	}
	b.WriteString(")\n")
	b.WriteString(Decls)
	line := strings.Count(b.String(), "\n") + 1
	starts := make([]int, len(cases)+1)
	for i, c := range cases {
		starts[i] = line
		s := fmt.Sprintf("var C%d %s\n", i, c.Rendered)
		b.WriteString(s)
		line += strings.Count(s, "\n")
	}
	starts[len(cases)] = line
	src = b.String()
	caseOfLine := func(l int) int {
		for i := range cases {
			if l >= starts[i] && l < starts[i+1] {
				return i
			}
		}
		return -1
	}
	seen := map[int]bool{}
	addErr := func(pos token.Position, msg string) {
		if i := caseOfLine(pos.Line); i >= 0 {
			if !seen[i] {
				seen[i] = true
				bad = append(bad, Verdict{i, msg})
			}
			return
		}
		fileErrs = append(fileErrs, fmt.Sprintf("%s: %s", pos, msg))
	}
	fset := w.Fset
	f, err := parser.ParseFile(fset, "check.go", src, parser.AllErrors)
	if err != nil {
		// syntax errors: attribute to cases by line
		if list, ok := err.(scanner.ErrorList); ok {
			for _, e := range list {
				addErr(e.Pos, "syntax: "+e.Msg)
			}
		} else {
			fileErrs = append(fileErrs, err.Error())
		}
		if f == nil {
			return
		}
	}
	var terrs []types.Error
	conf := types.Config{Importer: w, Error: func(err error) {
		if te, ok := err.(types.Error); ok {
			terrs = append(terrs, te)
		}
	}}
	pkg, _ := conf.Check(targetPath, fset, []*ast.File{f}, nil)
	for _, te := range terrs {
		addErr(fset.Position(te.Pos), te.Msg)
	}
	if pkg == nil {
		return
	}
	res := func(path, name string) (types.Object, error) {
		var p *types.Package
		if path == targetPath {
			p = pkg
		} else {
			var err error
			p, err = w.Import(path)
			if err != nil {
				return nil, err
			}
		}
		o := p.Scope().Lookup(name)
		if o == nil {
			return nil, fmt.Errorf("no %s in %s", name, path)
		}
		return o, nil
	}
	for i, c := range cases {
		if seen[i] {
			continue
		}
		o := pkg.Scope().Lookup(fmt.Sprintf("C%d", i))
		if o == nil {
			bad = append(bad, Verdict{i, "variable not declared"})
			continue
		}
		want, err := c.Want.Types(res, pkg)
		if err != nil {
			bad = append(bad, Verdict{i, "harness: cannot build expected type: " + err.Error()})
			continue
		}
		if !types.Identical(o.Type(), want) {
			bad = append(bad, Verdict{i, fmt.Sprintf("rendered text denotes %s, original type is %s", types.TypeString(o.Type(), nil), types.TypeString(want, nil))})
		}
	}
	return
}


// Qualifiers returns the package qualifiers of all selector expressions in a rendered type text, in source order.
func Qualifiers(src string) ([]string, error) {
	x, err := parser.ParseExpr(src)
	if err != nil {
		return nil, err
	}
	var out []string
	ast.Inspect(x, func(n ast.Node) bool {
		if s, ok := n.(*ast.SelectorExpr); ok {
			if id, ok := s.X.(*ast.Ident); ok {
				out = append(out, id.Name)
			}
		}
		return true
	})
	return out, nil
}

// ParseRefExpr parses gengo's reference syntax path.Name[arg,...] into an Expr (named / basic nodes only).
func ParseRefExpr(s string) (*Expr, error) {
	e, rest, err := parseRef(s)
	if err != nil {
		return nil, err
	}
	if rest != "" {
		return nil, fmt.Errorf("trailing %q", rest)
	}
	return e, nil
}

func parseRef(s string) (*Expr, string, error) {
	// head up to '[' ',' ']'
	i := strings.IndexAny(s, "[,]")
	head := s
	rest := ""
	if i >= 0 {
		head, rest = s[:i], s[i:]
	}
	e := &Expr{Kind: "named", Name: head}
	if j := strings.LastIndex(head, "."); j > 0 {
		e.Path, e.Name = head[:j], head[j+1:]
	} else if types.Universe.Lookup(head) != nil {
		e = &Expr{Kind: "basic", Name: head}
		if head == "error" || head == "any" {
			e.Kind = head
		}
	}
	if strings.HasPrefix(rest, "[") {
		rest = rest[1:]
		for {
			a, r2, err := parseRef(rest)
			if err != nil {
				return nil, "", err
			}
			e.Args = append(e.Args, a)
			rest = r2
			if strings.HasPrefix(rest, ",") {
				rest = rest[1:]
				continue
			}
			if strings.HasPrefix(rest, "]") {
				rest = rest[1:]
				break
			}
			return nil, "", fmt.Errorf("unterminated list in %q", s)
		}
	}
	return e, rest, nil
}
