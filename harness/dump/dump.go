// Package dump prints Go values canonically (nil and empty slices/maps identified, -0 == 0, map keys
// sorted) and types with full package paths. It has no dependencies, so it can be imported from an
// in-package test file of any fixture package. Both the compiled check program (on the value the
// rendered literal evaluated to) and the harness worker (on the original value) use it; the two
// strings must be equal.
package dump

import (
	"fmt"
	"reflect"
	"sort"
	"strconv"
	"strings"
)

func TypeString(t reflect.Type) string {
	if t.PkgPath() != "" && t.Name() != "" {
		return t.PkgPath() + "." + t.Name()
	}
	switch t.Kind() {
	case reflect.Ptr:
		return "*" + TypeString(t.Elem())
	case reflect.Slice:
		return "[]" + TypeString(t.Elem())
	case reflect.Array:
		return fmt.Sprintf("[%d]%s", t.Len(), TypeString(t.Elem()))
	case reflect.Map:
		return "map[" + TypeString(t.Key()) + "]" + TypeString(t.Elem())
	case reflect.Struct:
		var b strings.Builder
		b.WriteString("struct{")
		for i := 0; i < t.NumField(); i++ {
			f := t.Field(i)
			fmt.Fprintf(&b, "%s %s %q;", f.Name, TypeString(f.Type), f.Tag)
		}
		b.WriteString("}")
		return b.String()
	}
	return t.String()
}

func opaque(t reflect.Type) bool {
	if t.NumField() == 0 {
		return false
	}
	for i := 0; i < t.NumField(); i++ {
		if t.Field(i).IsExported() {
			return false
		}
	}
	return true
}

func Dump(v any) string {
	var b strings.Builder
	rv := reflect.ValueOf(v)
	if !rv.IsValid() {
		return "<invalid>"
	}
	b.WriteString(TypeString(rv.Type()))
	b.WriteString("=")
	dump(&b, rv)
	return b.String()
}

func DumpValue(rv reflect.Value) string {
	var b strings.Builder
	b.WriteString(TypeString(rv.Type()))
	b.WriteString("=")
	dump(&b, rv)
	return b.String()
}

func dump(b *strings.Builder, v reflect.Value) {
	switch v.Kind() {
	case reflect.Bool:
		b.WriteString(strconv.FormatBool(v.Bool()))
	case reflect.Int, reflect.Int8, reflect.Int16, reflect.Int32, reflect.Int64:
		b.WriteString(strconv.FormatInt(v.Int(), 10))
	case reflect.Uint, reflect.Uint8, reflect.Uint16, reflect.Uint32, reflect.Uint64, reflect.Uintptr:
		b.WriteString(strconv.FormatUint(v.Uint(), 10))
	case reflect.Float32, reflect.Float64:
		f := v.Float()
		if f == 0 {
			f = 0 // -0 == 0
		}
		b.WriteString(strconv.FormatFloat(f, 'x', -1, 64))
	case reflect.String:
		b.WriteString(strconv.Quote(v.String()))
	case reflect.Ptr:
		if v.IsNil() {
			b.WriteString("nil")
			return
		}
		b.WriteString("&")
		dump(b, v.Elem())
	case reflect.Slice, reflect.Array:
		b.WriteString("[")
		for i := 0; i < v.Len(); i++ {
			if i > 0 {
				b.WriteString(",")
			}
			dump(b, v.Index(i))
		}
		b.WriteString("]")
	case reflect.Map:
		var ents []string
		for _, k := range v.MapKeys() {
			var kb strings.Builder
			dump(&kb, k)
			kb.WriteString(":")
			dump(&kb, v.MapIndex(k))
			ents = append(ents, kb.String())
		}
		sort.Strings(ents)
		b.WriteString("{" + strings.Join(ents, ",") + "}")
	case reflect.Struct:
		if opaque(v.Type()) {
			// a struct type without exported fields cannot be spelled as a literal: outside the compared domain
			b.WriteString("<opaque>")
			return
		}
		b.WriteString("{")
		for i := 0; i < v.NumField(); i++ {
			if i > 0 {
				b.WriteString(",")
			}
			b.WriteString(v.Type().Field(i).Name + ":")
			dump(b, v.Field(i))
		}
		b.WriteString("}")
	default:
		fmt.Fprintf(b, "<%s>", v.Kind())
	}
}
