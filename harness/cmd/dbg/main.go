package main

import (
	"fmt"
	"os"

	"verif/internal/specgen"
)

// dbg <dir> <entry> <gen...>: run real generators in-process with gengo's stdout diagnostics visible.
func main() {
	var gs []specgen.GenSpec
	for _, g := range os.Args[3:] {
		gs = append(gs, specgen.GenSpec{Name: g, Real: true})
	}
	r := specgen.RunInProcess(os.Args[1], specgen.Args{Entrypoint: []string{os.Args[2]}, OutputFileBaseName: "zz_generated"}, gs)
	fmt.Println("ERR:", r.Err, r.Panic)
}
