// Command firstuse: see internal/firstuse. Usage: firstuse <argfile>
package main

import (
	"os"

	"verif/internal/firstuse"
)

func main() {
	firstuse.Main(os.Args[1])
}
