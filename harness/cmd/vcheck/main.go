package main

import (
	"verif/internal/core"

	_ "verif/internal/props/c09"
)

func main() { core.Main() }
