package main

import (
	"verif/internal/core"

	_ "verif/internal/props/c03"
	_ "verif/internal/props/c09"
	_ "verif/internal/props/c10"
	_ "verif/internal/props/c11"
	_ "verif/internal/props/c12"
	_ "verif/internal/props/c13"
	_ "verif/internal/props/c14"
	_ "verif/internal/props/c15"
	_ "verif/internal/props/c19"
	_ "verif/internal/props/c20"
)

func main() { core.Main() }
