// Package holder: a struct whose fields come from two packages that want the same import name.
package holder

import (
	lcodec "verif/fixtures/left/codec"
	rcodec "verif/fixtures/right/codec"
)

type Holder struct {
	L *lcodec.Codec
	R *rcodec.Codec
}

// Sample: entries alternate between the two packages, so the order in which entries are rendered decides which
// package is registered first with the import tracker.
func Sample() map[string]Holder {
	return map[string]Holder{
		"a": {L: &lcodec.Codec{N: 1}},
		"b": {R: &rcodec.Codec{N: 2}},
		"c": {L: &lcodec.Codec{N: 3}},
		"d": {R: &rcodec.Codec{N: 4}},
		"e": {R: &rcodec.Codec{N: 5}},
		"f": {L: &lcodec.Codec{N: 6}},
	}
}
