// Package v1 (core): same package name and same type names as the other .../v1 fixture package, on purpose.
package v1

type Kind string

type Spec struct {
	Name     string
	Replicas int
	Kind     Kind
}
