// Package vt is the value-type fixture catalogue for C10: every shape named in the property's domain.
package vt

import (
	"bytes"
	"time"

	appsv1 "verif/fixtures/apps/v1"
	corev1 "verif/fixtures/core/v1"
	"verif/fixtures/vu"
)

type (
	MyInt     int
	MyI8      int8
	MyI64     int64
	MyUint    uint
	MyU8      uint8
	MyUintptr uintptr
	MyF32     float32
	MyF64     float64
	MyStr     string
	MyBool    bool
	MyRune    rune
)

type Leaf struct {
	I  int
	S  string
	B  bool
	F  float64
	R  rune
	U8 uint8
}

type Empty struct{}

type Ptrs struct {
	PI   *int
	PS   *string
	PB   *bool
	PF   *float64
	PMI  *MyInt
	PMS  *MyStr
	PL   *Leaf
	PE   *Empty
	PU   *uintptr
	PR   *rune
	PI8  *int8
	PU64 *uint64
	PF32 *float32
	PMF  *MyF64
	PSl  *[]int
	PM   *map[string]int
}

type Conts struct {
	SS  []string
	SI  []int
	SL  []Leaf
	SPL []*Leaf
	MSI map[string]int
	MIS map[int]string
	MFS map[float64]string
	MRS map[rune]bool
	MML map[MyStr]Leaf
	MPL map[string]*Leaf
	MKI map[vu.MyID]MyInt
	A3  [3]int
	AL  [2]Leaf
	SM  []map[string]int
	MS  map[string][]int
	B   []byte
	SF  []float32
	SE  []Empty
	ME  map[string]Empty
	MPE map[vu.Pt]Empty
	MLK map[Leaf]string
	MEK map[Empty]int
	SSS [][][]map[vu.Pt]Empty
}

type Deep3 struct {
	Vals []Leaf
	M    map[string]Leaf
}

type Deep2 struct {
	L    Leaf
	Next *Deep3
	D3   Deep3
}

type Deep struct {
	Name   MyStr
	L      Leaf
	E      Empty
	P      Ptrs
	C      Conts
	PD     *Deep2
	D2     Deep2
	X      vu.Item
	PX     *vu.Item
	Pt     vu.Pt
	D      time.Duration
	PDur   *time.Duration
	Buf    bytes.Buffer
	N      MyInt
	U      MyUintptr
	hidden int
}

type Scalars struct {
	I   int
	I8  int8
	I16 int16
	I32 int32
	I64 int64
	U   uint
	U8  uint8
	U16 uint16
	U32 uint32
	U64 uint64
	UP  uintptr
	F32 float32
	F64 float64
	S   string
	B   bool
	R   rune
	MI  MyInt
	M8  MyI8
	M64 MyI64
	MU  MyUint
	MU8 MyU8
	MUP MyUintptr
	MF3 MyF32
	MF6 MyF64
	MS  MyStr
	MB  MyBool
	MR  MyRune
}

// Emb embeds exported struct types by value and by pointer.
type Emb struct {
	vu.Pt
	*Leaf
	N int
}

// named container types
type (
	IDs  []MyInt
	Dict map[MyStr]Leaf
	Grid [2][2]int
)

type Named struct {
	I IDs
	D Dict
	G Grid
	E Emb
}

// K8s mixes types whose package NAME and type name coincide (apps/v1.Spec, core/v1.Spec).
type K8s struct {
	A  appsv1.Spec
	C  corev1.Spec
	PA *appsv1.Kind
	PC *corev1.Kind
	LA []appsv1.Spec
	MC map[string]corev1.Spec
}

// Stamped has a field of a foreign struct type WITHOUT exported fields (time.Time): such a value cannot be spelled as
// a literal and is left out by the dumper - what it must not leave behind is an import nobody uses.
type Stamped struct {
	Name string
	At   time.Time
	N    int
}

func (d *Deep) Hidden() int { return d.hidden }
