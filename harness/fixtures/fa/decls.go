// Package fa is a compiled fixture package declaring the same type names as typgen.Decls.
package fa

type T int
type U string
type S struct{ X int }
type E interface{ M() }
type F func(int) string
type M map[string]int
type List[A any] struct{ Items []A }
type Pair[A any, B any] struct {
	K A
	V B
}
type Buffer struct{ n int }
type Duration int64
type Rand struct{}
type Template struct{}
type URL struct{}
type Time struct{}
type PS *S
type LS []S
type AR [2]T
type CH chan T

// Größe: an exported identifier with multi-byte letters
type Größe int
type A = T
