// Package codec (right) shares its base name with verif/fixtures/left/codec on purpose.
package codec

type Codec struct{ N int }
