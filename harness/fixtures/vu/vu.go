// Package vu is the second value-type fixture package (foreign to vt).
package vu

type MyID int64

type Kind string

type Item struct {
	ID   MyID
	Kind Kind
	Tags []string
	Meta map[string]string
	Next *Item
}

type Pt struct{ X, Y float32 }
