// Package catalog maps named type expressions (full-path syntax) to compiled reflect types.
package catalog

import (
	"bytes"
	htmltemplate "html/template"
	mathrand "math/rand"
	"net/url"
	"reflect"
	texttemplate "text/template"
	"time"

	"verif/fixtures/fa"
	"verif/fixtures/fb"
	fr "verif/fixtures/rand"
)

const (
	FA = "verif/fixtures/fa"
	FB = "verif/fixtures/fb"
	FR = "verif/fixtures/rand"
)

func t[X any]() reflect.Type { return reflect.TypeFor[X]() }

// Named: path -> name -> reflect type (plain named types).
var Named = map[string]map[string]reflect.Type{
	FA:              {"T": t[fa.T](), "U": t[fa.U](), "S": t[fa.S](), "E": t[fa.E](), "F": t[fa.F](), "M": t[fa.M](), "Buffer": t[fa.Buffer](), "Duration": t[fa.Duration](), "Rand": t[fa.Rand](), "Template": t[fa.Template](), "URL": t[fa.URL](), "Time": t[fa.Time](), "PS": t[fa.PS](), "LS": t[fa.LS](), "AR": t[fa.AR](), "CH": t[fa.CH](), "Größe": t[fa.Größe]()},
	FB:              {"T": t[fb.T](), "U": t[fb.U](), "S": t[fb.S](), "E": t[fb.E](), "F": t[fb.F](), "M": t[fb.M](), "Buffer": t[fb.Buffer](), "Duration": t[fb.Duration](), "Rand": t[fb.Rand](), "Template": t[fb.Template](), "URL": t[fb.URL](), "Time": t[fb.Time](), "PS": t[fb.PS](), "LS": t[fb.LS](), "AR": t[fb.AR](), "CH": t[fb.CH](), "Größe": t[fb.Größe]()},
	FR:              {"T": t[fr.T](), "U": t[fr.U](), "S": t[fr.S](), "Rand": t[fr.Rand](), "Duration": t[fr.Duration]()},
	"time":          {"Duration": t[time.Duration](), "Time": t[time.Time]()},
	"bytes":         {"Buffer": t[bytes.Buffer]()},
	"net/url":       {"URL": t[url.URL]()},
	"math/rand":     {"Rand": t[mathrand.Rand]()},
	"text/template": {"Template": t[texttemplate.Template]()},
	"html/template": {"Template": t[htmltemplate.Template]()},
}

// Generic: instantiations keyed by full-path reference syntax.
var Generic = map[string]reflect.Type{
	FA + ".List[int]":                                  t[fa.List[int]](),
	FA + ".List[string]":                               t[fa.List[string]](),
	FB + ".List[uint8]":                                t[fb.List[uint8]](),
	FA + ".List[" + FB + ".T]":                         t[fa.List[fb.T]](),
	FA + ".List[" + FA + ".U]":                         t[fa.List[fa.U]](),
	FB + ".List[" + FA + ".S]":                         t[fb.List[fa.S]](),
	FB + ".List[time.Duration]":                        t[fb.List[time.Duration]](),
	FA + ".Pair[string," + FB + ".T]":                  t[fa.Pair[string, fb.T]](),
	FB + ".Pair[" + FA + ".T,int]":                     t[fb.Pair[fa.T, int]](),
	FA + ".Pair[" + FA + ".T," + FB + ".T]":            t[fa.Pair[fa.T, fb.T]](),
	FA + ".Pair[" + FR + ".Rand,math/rand.Rand]":       t[fa.Pair[fr.Rand, mathrand.Rand]](),
	FA + ".List[" + FB + ".List[" + FA + ".T]]":        t[fa.List[fb.List[fa.T]]](),
	FB + ".List[" + FB + ".List[string]]":              t[fb.List[fb.List[string]]](),
	FA + ".Pair[string," + FB + ".List[" + FA + ".T]]": t[fa.Pair[string, fb.List[fa.T]]](),
	FA + ".Pair[" + FB + ".Pair[" + FA + ".T," + FB + ".U]," + FA + ".List[int]]":                           t[fa.Pair[fb.Pair[fa.T, fb.U], fa.List[int]]](),
	FB + ".List[" + FA + ".Pair[" + FB + ".List[" + FA + ".Pair[" + FA + ".T," + FB + ".T]]," + FR + ".T]]": t[fb.List[fa.Pair[fb.List[fa.Pair[fa.T, fb.T]], fr.T]]](),
	FA + ".Pair[text/template.Template,html/template.Template]":                                             t[fa.Pair[texttemplate.Template, htmltemplate.Template]](),
}

var Error = reflect.TypeFor[error]()
var Any = reflect.TypeFor[any]()

// Embedding structs compiled in (reflect.StructOf cannot build every embedded shape); anonymous struct types.
var Structs = map[string]reflect.Type{
	"EmbV": reflect.TypeOf(struct {
		fa.S
		*fb.T `json:"t"`
		Name  string `json:"name"`
	}{}),
	"EmbG": reflect.TypeOf(struct {
		fa.List[fb.T]
		*fb.Pair[fa.T, int] `x:"\"q\""`
		Err                 error
		Any                 any
	}{}),
}
