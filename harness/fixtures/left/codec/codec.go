// Package codec (left) shares its base name with verif/fixtures/right/codec on purpose.
package codec

type Codec struct{ N int }
