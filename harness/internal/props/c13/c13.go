// Package c13: the loaded universe mirrors the type checker's view of each package.
package c13

import (
	"fmt"
	"go/ast"
	"go/token"
	"hash/fnv"
	"go/types"
	"math/rand"
	"path/filepath"
	"sort"
	"strings"

	gengotypes "github.com/octohelm/gengo/pkg/types"

	"verif/internal/core"
	"verif/internal/fixture"
	"verif/internal/synth"
)

func init() { core.Register(&prop{}) }

type prop struct{}

func (*prop) ID() string    { return "C13" }
func (*prop) Level() string { return "exploration" }
func (*prop) Rule() string {
	return "(a) the dependency closure of /repo itself (github.com/octohelm/gengo/..., about 200 packages including std) is loaded with the real types.Load several times (map-iteration order differs per load); " +
		"(b) seeded synthetic modules of 3 packages importing each other, with function-local types / constants (fresh and clashing with package-level names of a different kind), type parameters shadowing package types, generic value/pointer receivers, receivers spelled through aliases, interfaces, grouped declarations, init and blank functions, several files. " +
		"Oracle per package (unsafe skipped): Types()/Constants()/Functions() have exactly the names of that kind in Pkg().Scope() and the same objects (init and _ tolerated either way); Type/Constant/Function(n) == Scope().Lookup(n) for every scope name, and for every function-local declaration found in the syntax the accessor returns the package-scope object of that name or nil - never the local object or a type parameter; " +
		"MethodsOf(T,true) as a set == T.Method(i) (explicit methods for interface types), MethodsOf(T,false) == those with non-pointer receivers, generic T included; Imports() keys == Pkg().Imports() paths and every value is non-nil and identical to Universe.Package(path); for module packages LocateInPackage(pos of every file) == the package and SourceDir() == the files' directory. " +
		"Non-trivial = a package with at least one of: local declaration, generic type with methods, alias receiver, import edge; distinct by hash of (package path, load ordinal) for the corpus and of the generated source for synthetic packages."
}
func (*prop) Assumptions() []string {
	return []string{
		"the judge is the go/types universe of the same load (Pkg().Scope(), Named.Method, Package.Imports)",
		"Functions() may or may not list init (the statement sets init and blank functions aside)",
	}
}
func (*prop) MinDistinct(tier string) int64 {
	if tier == "thorough" {
		return 1500
	}
	return 150
}
func (*prop) Workers(tier string) int { return 8 } // each corpus load holds ~200 type-checked packages in memory

type params struct {
	N   int `json:"n"`
	Ord int `json:"ord"`
}

func (*prop) Cases(seed int64, tier string) []core.Case {
	loads, synthCases, per := 3, 16, 5
	if tier == "thorough" {
		loads, synthCases, per = 10, 120, 20
	}
	var cs []core.Case
	for i := 0; i < loads; i++ {
		cs = append(cs, core.MkCase("corpus", params{Ord: i}))
	}
	for i := 0; i < synthCases; i++ {
		cs = append(cs, core.MkCase("synthetic", params{N: per}))
	}
	return cs
}

type pkgStats struct {
	locals, genericMethods, aliasRecv, importEdges int
}

// checkPackage runs every oracle on one package; failures are recorded in res.
func checkPackage(res *core.Result, u *gengotypes.Universe, p gengotypes.Package, ctx string) pkgStats {
	var st pkgStats
	tp := p.Pkg()
	path := tp.Path()
	scope := tp.Scope()
	fail := func(oracle, what, format string, a ...any) {
		res.Fail(oracle, ctx+" "+what, fmt.Sprintf("package %s: ", path)+fmt.Sprintf(format, a...), map[string]any{"package": path})
	}
	wantT, wantC, wantF := map[string]types.Object{}, map[string]types.Object{}, map[string]types.Object{}
	for _, n := range scope.Names() {
		o := scope.Lookup(n)
		switch o.(type) {
		case *types.TypeName:
			wantT[n] = o
		case *types.Const:
			wantC[n] = o
		case *types.Func:
			wantF[n] = o
		}
	}
	// tables
	cmp := func(kind string, got map[string]types.Object, want map[string]types.Object, tolerate ...string) {
		for n, o := range got {
			skip := false
			for _, t := range tolerate {
				if n == t {
					skip = true
				}
			}
			if skip {
				continue
			}
			w, ok := want[n]
			if !ok {
				fail("table-extra", kind, "%s() contains %q (%s at %s) which is not a package-scope %s", kind, n, o, p.Position(o.Pos()), kind)
			} else if w != o {
				fail("table-object", kind, "%s()[%q] is %s declared at %s, the package scope has %s declared at %s", kind, n, o, p.Position(o.Pos()), w, p.Position(w.Pos()))
			}
		}
		for n := range want {
			if _, ok := got[n]; !ok {
				fail("table-missing", kind, "%s() lacks the package-scope name %q", kind, n)
			}
		}
		res.Count("scope_names_compared", int64(len(want)))
	}
	gt := map[string]types.Object{}
	for n, o := range p.Types() {
		gt[n] = o
	}
	gc := map[string]types.Object{}
	for n, o := range p.Constants() {
		gc[n] = o
	}
	gf := map[string]types.Object{}
	for n, o := range p.Functions() {
		gf[n] = o
	}
	cmp("Types", gt, wantT)
	cmp("Constants", gc, wantC)
	cmp("Functions", gf, wantF, "init", "_")
	// lookups
	for _, n := range scope.Names() {
		o := scope.Lookup(n)
		var got types.Object
		switch o.(type) {
		case *types.TypeName:
			if x := p.Type(n); x != nil {
				got = x
			}
		case *types.Const:
			if x := p.Constant(n); x != nil {
				got = x
			}
		case *types.Func:
			if x := p.Function(n); x != nil {
				got = x
			}
		default:
			continue
		}
		if got != o {
			fail("lookup", "scope-name", "accessor for %q returns %v, Scope().Lookup gives %v", n, got, o)
		}
	}
	// names the package does NOT declare: predeclared identifiers (string, error, any, true, iota, len ...) live in the
	// universe scope, not in the package scope - the accessors answer for the package scope only (seeded change C13-n:
	// a fallback through Scope().LookupParent) - and a name nobody declares
	for _, n := range append(types.Universe.Names(), "noSuchNameAnywhere") {
		if scope.Lookup(n) != nil {
			continue
		}
		if x := p.Type(n); x != nil {
			fail("lookup", "undeclared-name Type", "Type(%q) returns %v although the package scope has no such name", n, x)
		}
		if x := p.Constant(n); x != nil {
			fail("lookup", "undeclared-name Constant", "Constant(%q) returns %v although the package scope has no such name", n, x)
		}
		if x := p.Function(n); x != nil {
			fail("lookup", "undeclared-name Function", "Function(%q) returns %v although the package scope has no such name", n, x)
		}
		res.Inc("undeclared_names_looked_up")
	}
	// function-local declarations found in the syntax: the accessors must never hand them out
	for _, f := range p.Files() {
		ast.Inspect(f, func(n ast.Node) bool {
			id, ok := n.(*ast.Ident)
			if !ok {
				return true
			}
			o := p.ObjectOf(id)
			if o == nil || o.Pos() != id.Pos() {
				return true // a use, not a declaration
			}
			if o.Parent() == scope || o.Parent() == nil || o.Parent() == types.Universe {
				return true // package-level declarations, methods and fields (no parent scope)
			}
			switch o.(type) {
			case *types.TypeName:
				st.locals++
				if got := p.Type(o.Name()); got != nil && types.Object(got) == o {
					fail("local-leak", "Type", "Type(%q) returns the function-local type / type parameter declared at %s", o.Name(), p.Position(o.Pos()))
				} else if got != nil && got.Parent() != scope {
					fail("local-leak", "Type", "Type(%q) returns an object that is not in the package scope (declared at %s)", o.Name(), p.Position(got.Pos()))
				}
				res.Inc("local_or_typeparam_type_names_probed")
			case *types.Const:
				st.locals++
				if got := p.Constant(o.Name()); got != nil && got.Parent() != scope {
					fail("local-leak", "Constant", "Constant(%q) returns the function-local constant declared at %s", o.Name(), p.Position(got.Pos()))
				}
				res.Inc("local_constant_names_probed")
			}
			return true
		})
	}
	// methods
	for n, o := range wantT {
		tn := o.(*types.TypeName)
		if tn.IsAlias() {
			continue
		}
		named, ok := tn.Type().(*types.Named)
		if !ok {
			continue
		}
		want := map[*types.Func]bool{}
		wantVal := map[*types.Func]bool{}
		if iface, ok := named.Underlying().(*types.Interface); ok {
			for i := 0; i < iface.NumExplicitMethods(); i++ {
				m := iface.ExplicitMethod(i)
				if r := m.Type().(*types.Signature).Recv(); r != nil && types.Unalias(r.Type()) == types.Type(named) {
					want[m] = true
					wantVal[m] = true
				}
			}
		} else {
			for i := 0; i < named.NumMethods(); i++ {
				m := named.Method(i)
				want[m] = true
				rt := types.Unalias(m.Type().(*types.Signature).Recv().Type())
				if _, isPtr := rt.(*types.Pointer); !isPtr {
					wantVal[m] = true
				}
				if _, viaAlias := m.Type().(*types.Signature).Recv().Type().(*types.Alias); viaAlias {
					st.aliasRecv++
				} else if pt, ok := m.Type().(*types.Signature).Recv().Type().(*types.Pointer); ok {
					if _, viaAlias := pt.Elem().(*types.Alias); viaAlias {
						st.aliasRecv++
					}
				}
			}
			if named.TypeParams().Len() > 0 && named.NumMethods() > 0 {
				st.genericMethods++
			}
		}
		// the accessor is queried repeatedly and in both orders: an answer must not depend on earlier queries
		for _, mode := range []bool{true, false, false, true, false, true} {
			got := map[*types.Func]bool{}
			for _, m := range p.MethodsOf(named, mode) {
				if got[m] {
					fail("methods-dup", "MethodsOf", "MethodsOf(%s,%v) lists %s twice", n, mode, m.Name())
				}
				got[m] = true
			}
			w := want
			if !mode {
				w = wantVal
			}
			var missing, extra []string
			for m := range w {
				if !got[m] {
					missing = append(missing, m.Name())
				}
			}
			for m := range got {
				if !w[m] {
					extra = append(extra, m.Name())
				}
			}
			sort.Strings(missing)
			sort.Strings(extra)
			if len(missing)+len(extra) > 0 {
				kind := "plain"
				if named.TypeParams().Len() > 0 {
					kind = "generic"
				}
				if _, ok := named.Underlying().(*types.Interface); ok {
					kind = "interface"
				}
				fail("methods", fmt.Sprintf("MethodsOf(%s,ptr=%v)", kind, mode), "MethodsOf(%s, %v): missing %v, extra %v (type checker lists %d methods)", n, mode, missing, extra, len(w))
			}
			res.Count("methods_compared", int64(len(w)))
		}
	}
	// imports
	imps := p.Imports()
	wantImps := map[string]bool{}
	for _, ip := range tp.Imports() {
		wantImps[ip.Path()] = true
	}
	for ipath := range wantImps {
		v, ok := imps[ipath]
		st.importEdges++
		if !ok {
			fail("imports-missing", "Imports", "Imports() lacks %q", ipath)
			continue
		}
		if v == nil {
			fail("imports-nil", "Imports", "Imports()[%q] is nil", ipath)
			continue
		}
		if v != u.Package(ipath) {
			fail("imports-identity", "Imports", "Imports()[%q] is not the Package that Universe.Package(%q) returns", ipath, ipath)
		}
	}
	for ipath := range imps {
		if !wantImps[ipath] && ipath != "unsafe" && ipath != "C" {
			fail("imports-extra", "Imports", "Imports() has %q which the type checker does not list as an import", ipath)
		}
	}
	res.Count("import_edges_compared", int64(len(wantImps)))
	// location
	if p.Module() != nil {
		for _, f := range p.Files() {
			fn := p.FileSet().File(f.FileStart).Name()
			if strings.Contains(fn, "go-build") {
				continue // generated cgo files live in the build cache
			}
			var got gengotypes.Package
			var srcDir string
			if pk, pv, _ := core.Guard(func() { srcDir = p.SourceDir() }); pk {
				fail("sourcedir", "SourceDir panics", "SourceDir() panicked: %v", pv)
				continue
			}
			if pk, pv, _ := core.Guard(func() { got = u.LocateInPackage(f.Package) }); pk {
				fail("locate", "LocateInPackage panics", "LocateInPackage(pos in %s) panicked: %v", fn, pv)
				continue
			}
			if got != p {
				gp := "<nil>"
				if got != nil {
					gp = got.Pkg().Path()
				}
				fail("locate", "LocateInPackage", "LocateInPackage(pos in %s) = %s", fn, gp)
			}
			// every position of the file belongs to the file: the header before the package clause, build constraints,
			// the package doc, comments after the last declaration, the last byte (seeded change C13-l)
			for _, wp := range filePositions(p.FileSet(), f) {
				var g2 gengotypes.Package
				if pk, pv, _ := core.Guard(func() { g2 = u.LocateInPackage(wp.pos) }); pk {
					fail("locate", "LocateInPackage panics at "+wp.what, "LocateInPackage(%s of %s) panicked: %v", wp.what, fn, pv)
					break
				}
				if g2 != p {
					gp := "<nil>"
					if g2 != nil {
						gp = g2.Pkg().Path()
					}
					fail("locate", "LocateInPackage at "+wp.what, "LocateInPackage(%s of %s, offset %d) = %s", wp.what, fn, p.FileSet().Position(wp.pos).Offset, gp)
				}
				res.Inc("file_positions_located")
				res.Inc("file_positions_" + wp.what)
			}
			if d := filepath.Dir(fn); srcDir != d {
				fail("sourcedir", "SourceDir", "SourceDir() = %q, files live in %q", srcDir, d)
			}
			res.Inc("file_locations_compared")
		}
	}
	return st
}

type whatPos struct {
	what string
	pos  token.Pos
}

// filePositions lists positions that all lie inside f's file: first and last byte, the package clause, every comment
// group (start and last byte), every declaration (start and last byte) and a few offsets derived from the file name.
// Files with //line directives are left to the package-clause probe only (Position() is redirected there).
func filePositions(fset *token.FileSet, f *ast.File) []whatPos {
	tf := fset.File(f.FileStart)
	if tf == nil || tf.Size() == 0 {
		return nil
	}
	for _, cg := range f.Comments {
		for _, c := range cg.List {
			if strings.HasPrefix(c.Text, "//line ") || strings.HasPrefix(c.Text, "/*line ") {
				return nil
			}
		}
	}
	base, size := token.Pos(tf.Base()), tf.Size()
	in := func(p token.Pos) bool { return p >= base && p < base+token.Pos(size) }
	seen := map[token.Pos]bool{}
	var out []whatPos
	add := func(what string, p token.Pos) {
		if in(p) && !seen[p] {
			seen[p] = true
			out = append(out, whatPos{what, p})
		}
	}
	add("first-byte", base)
	add("last-byte", base+token.Pos(size)-1)
	add("package-name", f.Name.Pos())
	for _, cg := range f.Comments {
		what := "comment-between-decls"
		switch {
		case cg.End() <= f.Package:
			what = "comment-before-package-clause"
		case len(f.Decls) > 0 && cg.Pos() >= f.Decls[len(f.Decls)-1].End():
			what = "comment-after-last-decl"
		case len(f.Decls) == 0:
			what = "comment-after-last-decl"
		}
		add(what, cg.Pos())
		add(what, cg.End()-1)
	}
	for _, d := range f.Decls {
		add("decl", d.Pos())
		add("decl", d.End()-1)
	}
	h := fnv.New32a()
	h.Write([]byte(tf.Name()))
	x := h.Sum32()
	for i := 0; i < 6; i++ {
		x = x*1664525 + 1013904223
		add("pseudo-random-offset", base+token.Pos(int(x>>8)%size))
	}
	return out
}

func closure(u *gengotypes.Universe, roots []string) []gengotypes.Package {
	seen := map[string]bool{}
	var out []gengotypes.Package
	var visit func(path string)
	visit = func(path string) {
		if seen[path] || path == "unsafe" {
			return
		}
		seen[path] = true
		p := u.Package(path)
		if p == nil {
			return
		}
		out = append(out, p)
		for _, ip := range p.Pkg().Imports() {
			visit(ip.Path())
		}
	}
	for _, r := range roots {
		visit(r)
	}
	return out
}

var corpusRoots = []string{
	"github.com/octohelm/gengo/pkg/gengo", "github.com/octohelm/gengo/pkg/types", "github.com/octohelm/gengo/pkg/namer", "github.com/octohelm/gengo/pkg/camelcase",
	"github.com/octohelm/gengo/pkg/inflector", "github.com/octohelm/gengo/pkg/sumfile", "github.com/octohelm/gengo/pkg/gengo/snippet", "github.com/octohelm/gengo/pkg/gengo/internal",
	"github.com/octohelm/gengo/devpkg/deepcopygen", "github.com/octohelm/gengo/devpkg/runtimedocgen", "github.com/octohelm/gengo/devpkg/partialstruct", "github.com/octohelm/gengo/devpkg/defaultergen",
	"github.com/octohelm/gengo/devpkg/deepcopygen/helper", "github.com/octohelm/gengo/testdata/a", "github.com/octohelm/gengo/testdata/a/b", "github.com/octohelm/gengo/testdata/a/c", "github.com/octohelm/gengo/pkg/inflector/internal",
}

func (p *prop) runCorpus(c core.Case, w *core.Worker, res *core.Result) {
	var pa params
	c.Decode(&pa)
	fixture.CleanGoEnv()
	var u *gengotypes.Universe
	var err error
	pk, pv, _ := core.Guard(func() { u, err = gengotypes.Load([]string{"github.com/octohelm/gengo/..."}, gengotypes.WithDir(w.Repo)) })
	if pk || err != nil {
		res.Inconclusive = append(res.Inconclusive, fmt.Sprintf("loading the corpus failed: %v %v", pv, err))
		return
	}
	pkgs := closure(u, corpusRoots)
	for _, p := range pkgs {
		res.Evals++
		before := len(res.Failures)
		st := checkPackage(res, u, p, "corpus")
		_ = before
		if st.locals+st.genericMethods+st.aliasRecv+st.importEdges > 0 {
			res.NonTrivial(fmt.Sprintf("corpus|%s|%d", p.Pkg().Path(), pa.Ord))
		}
		res.Count("corpus_packages_checked", 1)
		res.Count("local_declarations_seen", int64(st.locals))
		res.Count("generic_types_with_methods_seen", int64(st.genericMethods))
		res.Count("alias_receiver_methods_seen", int64(st.aliasRecv))
	}
	res.Sample(map[string]any{"corpus_load": pa.Ord, "packages": len(pkgs), "example": pkgs[len(pkgs)/2].Pkg().Path()}, 1)
}

func (p *prop) runSynthetic(c core.Case, w *core.Worker, res *core.Result) {
	var pa params
	c.Decode(&pa)
	r := rand.New(rand.NewSource(c.Seed))
	for i := 0; i < pa.N; i++ {
		// three replaced dependency modules: a sibling directory (path longer than the replacement), a nested module
		// inside the tree whose path extends the main module's, and one whose module path is short (replacement
		// directory path longer than the import path); each with a root package and a package two levels down
		extra := "\nrequire (\n\texample.com/dep v0.0.0\n\texample.com/c13/tools v0.0.0\n\tx.io/d v0.0.0\n)\n\nreplace (\n\texample.com/dep => ./_deps/dep\n\texample.com/c13/tools => ./tools\n\tx.io/d => ./_deps/some/much/longer/directory/name/than/the/path\n)\n"
		m, err := fixture.New(w.Scratch, fmt.Sprintf("c13-%d-%d", c.ID, i), "example.com/c13", "1.24", extra)
		if err != nil {
			res.Inconclusive = append(res.Inconclusive, err.Error())
			return
		}
		depPkgs := []string{}
		for mp, dir := range map[string]string{"example.com/dep": "_deps/dep", "example.com/c13/tools": "tools", "x.io/d": "_deps/some/much/longer/directory/name/than/the/path"} {
			m.MustWrite(filepath.Join(dir, "go.mod"), "module "+mp+"\n\ngo 1.24\n")
			m.MustWrite(filepath.Join(dir, "root.go"), "package "+filepath.Base(mp)+"\n\n// Anchor is referenced by importers.\ntype Anchor struct{ N int }\n\nfunc (a Anchor) Get() int { return a.N }\n")
			m.MustWrite(filepath.Join(dir, "sub/leaf/leaf.go"), "package leaf\n\nimport up \""+mp+"\"\n\n// Anchor is referenced by importers.\ntype Anchor struct{ Up up.Anchor }\n\nfunc (a *Anchor) Get() int { return a.Up.N }\n")
			m.MustWrite(filepath.Join(dir, "sub/leaf/more.go"), "package leaf\n\nconst K = 1\n")
			depPkgs = append(depPkgs, mp, mp+"/sub/leaf")
		}
		sort.Strings(depPkgs)
		o := synth.Opts{NTypes: 6 + r.Intn(8), Methods: true, Clash: true, Docs: true, TagKeys: []string{"gengo:x"}, TagValues: []string{"", "false"}, PkgTagProb: 30}
		var pkgs []*synth.Package
		// c imports nothing, b imports c, a imports b and c (registration order of dependencies matters for Imports())
		oc := o
		oc.Imports = depPkgs
		pc := synth.Generate(r, "pc", "z/pc", "example.com/c13/z/pc", oc)
		ob := o
		ob.Imports = []string{pc.Path}
		pb := synth.Generate(r, "pb", "pb", "example.com/c13/pb", ob)
		oa := o
		oa.Imports = []string{pb.Path, pc.Path}
		pa2 := synth.Generate(r, "pa", "pa", "example.com/c13/pa", oa)
		pkgs = append(pkgs, pa2, pb, pc)
		var src strings.Builder
		for _, sp := range pkgs {
			for fn, s := range sp.Files {
				m.MustWrite(filepath.Join(sp.Dir, fn), s)
				src.WriteString(s)
			}
		}
		var u *gengotypes.Universe
		patterns := []string{pa2.Path}
		if r.Intn(2) == 0 {
			patterns = []string{pc.Path, pa2.Path, pb.Path}
		}
		pk, pv, _ := core.Guard(func() { u, err = gengotypes.Load(patterns, gengotypes.WithDir(m.Root)) })
		if pk || err != nil {
			res.Inconclusive = append(res.Inconclusive, fmt.Sprintf("types.Load failed on a synthetic module: %v %v", pv, err))
			m.Remove()
			continue
		}
		for _, sp := range pkgs {
			gp := u.Package(sp.Path)
			if gp == nil {
				res.Fail("universe-missing", "synthetic", "Universe.Package("+sp.Path+") is nil although it is in the import closure", nil)
				continue
			}
			if len(gp.Pkg().Scope().Names()) == 0 {
				res.Inconclusive = append(res.Inconclusive, "synthetic package did not type-check: "+sp.Path)
				continue
			}
			res.Evals++
			st := checkPackage(res, u, gp, "synthetic")
			res.NonTrivial("synthetic|" + sp.Files["a.go"] + sp.Files["b.go"])
			res.Count("synthetic_packages_checked", 1)
			res.Count("local_declarations_seen", int64(st.locals))
			res.Count("generic_types_with_methods_seen", int64(st.genericMethods))
			res.Count("alias_receiver_methods_seen", int64(st.aliasRecv))
		}
		// the packages of the replaced modules
		for _, dp := range depPkgs {
			gp := u.Package(dp)
			if gp == nil {
				res.Fail("universe-missing", "synthetic replaced module", "Universe.Package("+dp+") is nil although it is in the import closure", nil)
				continue
			}
			if gp.Module() == nil || gp.Module().Replace == nil {
				res.Inconclusive = append(res.Inconclusive, "dependency package is not reported as part of a replaced module: "+dp)
				continue
			}
			res.Evals++
			checkPackage(res, u, gp, "synthetic replaced module")
			res.Count("replaced_module_packages_checked", 1)
		}
		if i == 0 {
			res.Sample(map[string]any{"synthetic_module": "pa -> pb -> z/pc", "patterns": patterns, "pa_types": len(pa2.Types), "local_types": pa2.LocalTyps, "type_params": pa2.TypeParms}, 1)
		}
		m.Remove()
	}
}

func (p *prop) Run(c core.Case, w *core.Worker) core.Result {
	res := core.Result{CaseID: c.ID}
	switch c.Kind {
	case "corpus":
		p.runCorpus(c, w, &res)
	case "synthetic":
		p.runSynthetic(c, w, &res)
	}
	return res
}
