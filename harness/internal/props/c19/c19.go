// Package c19: camelcase.Split is total and lossless; the six converters are total and pure.
package c19

import (
	"crypto/sha256"
	"encoding/hex"
	"encoding/json"
	"fmt"
	"math/rand"
	"os"
	"os/exec"
	"path/filepath"
	"strings"
	"sync"
	"unicode/utf8"

	"github.com/octohelm/gengo/pkg/camelcase"
	"github.com/octohelm/gengo/pkg/gengo"
	"github.com/octohelm/gengo/pkg/namer"
	gengotypes "github.com/octohelm/gengo/pkg/types"

	"verif/internal/core"
	"verif/internal/firstuse"
)

func init() { core.Register(&prop{}) }

type prop struct{}

func (*prop) ID() string    { return "C19" }
func (*prop) Level() string { return "exploration" }
func (*prop) Rule() string {
	return "Split and the six converters are called on every string up to length L over the 14-symbol alphabet {a,z,A,Z,0,9,_,-,.,space,é,Ü,ǅ(title case),\\xff} " +
		"(exhaustive; L=4 quick, 6 thorough), on seeded long random strings over a wider alphabet (combining marks, CJK, emoji, NUL, lone surrogate bytes) and on the import-path segment shapes of C03. " +
		"Oracles: no panic; every word non-empty; concatenation of the words == input; invalid UTF-8 => [input]; each converter returns the same string twice in a row, the same from 8 goroutines " +
		"running concurrently under the race detector, and the same in a second worker process (digest comparison); order independence: a fresh child process that converts the same inputs (case-fold families: istanbul / İstanbul, ß / ẞ / SS, σ / ς / Σ, ǆ / ǅ / Ǆ, K / k, ſ / s ...) in the reverse order must give the same answers. " +
		"Non-trivial = the string has >=2 runes of >=2 different classes or starts with a non-letter/digit; distinct by construction (exhaustive shards) or by 64-bit hash (random)."
}
func (*prop) Assumptions() []string {
	return []string{"the race detector only sees the interleavings the 8 goroutines actually produced", "golang.org/x/text cases.Title is treated as part of the code under test"}
}
func (*prop) MinDistinct(tier string) int64 {
	if tier == "thorough" {
		return 2000000
	}
	return 20000
}
func (*prop) WantsRace(tier string) bool { return true }

var alphabet = []string{"a", "z", "A", "Z", "0", "9", "_", "-", ".", " ", "é", "Ü", "ǅ", "\xff"}

// byteAlphabet: letters and a separator next to the bytes of é (c3 a9), € (e2 82 ac), BOM / U+FFFD (ef bb bf / ef bf bd)
// and an emoji lead byte: every way a sequence can be complete, cut short, or start in the middle
var byteAlphabet = []string{"a", "B", "_", "\xc3", "\xa9", "\xe2", "\x82", "\xac", "\xef", "\xbb", "\xbf", "\xbd", "\xf0", "\x80"}

type shard struct {
	Lo, Hi int64
	L      int
	Dup    bool
}

var converters = []struct {
	name string
	f    func(string) string
}{
	{"LowerSnakeCase", camelcase.LowerSnakeCase},
	{"UpperSnakeCase", camelcase.UpperSnakeCase},
	{"LowerKebabCase", camelcase.LowerKebabCase},
	{"UpperKebabCase", camelcase.UpperKebabCase},
	{"LowerCamelCase", camelcase.LowerCamelCase},
	{"UpperCamelCase", camelcase.UpperCamelCase},
	// the gengo re-exports must be the same functions
	{"gengo.UpperCamelCase", gengo.UpperCamelCase},
	{"gengo.LowerSnakeCase", gengo.LowerSnakeCase},
}

func (*prop) Cases(seed int64, tier string) []core.Case {
	L, nshard, nrand, randN := 4, 16, 16, 6000
	if tier == "thorough" {
		L, nshard, nrand, randN = 6, 128, 32, 30000
	}
	sp := core.StringSpace{Alphabet: alphabet, MaxLen: L}
	var cs []core.Case
	shards := sp.Shards(nshard)
	for _, sh := range shards {
		cs = append(cs, core.MkCase("exhaustive", shard{sh[0], sh[1], L, false}))
	}
	// the first shards again: executed by (most likely) another worker process; digests must agree
	for i := 0; i < 2 && i < len(shards); i++ {
		cs = append(cs, core.MkCase("exhaustive", shard{shards[i][0], shards[i][1], L, true}))
	}
	for i := 0; i < nrand; i++ {
		cs = append(cs, core.MkCase("random", map[string]int{"n": randN}))
	}
	// a second exhaustive space over single BYTES that build, break and truncate UTF-8 sequences
	lb := 4
	if tier == "thorough" {
		lb = 5
	}
	for _, sh := range (core.StringSpace{Alphabet: byteAlphabet, MaxLen: lb}).Shards(4) {
		cs = append(cs, core.MkCase("exhaustive-bytes", shard{sh[0], sh[1], lb, false}))
	}
	cs = append(cs, core.MkCase("segments", nil))
	for i := 0; i < 4; i++ {
		cs = append(cs, core.MkCase("order", map[string]int{"n": randN / 4}))
	}
	nmany := 200_000
	if tier == "thorough" {
		nmany = 1_000_000
	}
	cs = append(cs, core.MkCase("many-distinct", map[string]int{"n": nmany}))
	nfirst := 2
	if tier == "thorough" {
		nfirst = 12
	}
	for i := 0; i < nfirst; i++ {
		cs = append(cs, core.MkCase("first-use", map[string]int{"procs": []int{4, 16, 2}[i%3], "g": []int{48, 16, 96}[i%3], "children": 4}))
	}
	return cs
}

func nontrivial(s string) bool {
	if !utf8.ValidString(s) {
		return len(s) > 1
	}
	rs := []rune(s)
	if len(rs) == 0 {
		return false
	}
	cls := func(r rune) int {
		switch {
		case r >= 'a' && r <= 'z', r == 'é':
			return 1
		case r >= 'A' && r <= 'Z', r == 'Ü':
			return 2
		case r >= '0' && r <= '9':
			return 3
		}
		return 0
	}
	if cls(rs[0]) == 0 {
		return true
	}
	for _, r := range rs[1:] {
		if cls(r) != cls(rs[0]) {
			return true
		}
	}
	return false
}

// checkSplit returns "" when the oracle holds for s.
func checkSplit(s string) string {
	var words []string
	pk, pv, _ := core.Guard(func() { words = camelcase.Split(s) })
	if pk {
		return fmt.Sprintf("Split(%q) panicked: %v", s, pv)
	}
	if !utf8.ValidString(s) {
		if len(words) != 1 || words[0] != s {
			return fmt.Sprintf("Split(%q) on invalid UTF-8 = %q, want the input as one word", s, words)
		}
		return ""
	}
	for _, w := range words {
		if w == "" {
			return fmt.Sprintf("Split(%q) = %q contains an empty word", s, words)
		}
	}
	if strings.Join(words, "") != s {
		return fmt.Sprintf("Split(%q) = %q does not concatenate to the input", s, words)
	}
	return ""
}

func checkConv(s string) (msg string, outs []string) {
	outs = make([]string, len(converters))
	for i, c := range converters {
		var a, b string
		pk, pv, _ := core.Guard(func() { a = c.f(s); b = c.f(s) })
		if pk {
			return fmt.Sprintf("%s(%q) panicked: %v", c.name, s, pv), nil
		}
		if a != b {
			return fmt.Sprintf("%s(%q) returned %q then %q", c.name, s, a, b), nil
		}
		outs[i] = a
	}
	if outs[5] != outs[6] || outs[0] != outs[7] {
		return fmt.Sprintf("gengo re-exports disagree with camelcase on %q", s), nil
	}
	return "", outs
}

func fail(res *core.Result, oracle, s string, check func(string) string) {
	sh := core.ShrinkString(s, func(x string) bool { return check(x) != "" })
	res.Fail(oracle, fmt.Sprintf("%q", sh), fmt.Sprintf("%s; shrunk input %q: %s", check(s), sh, check(sh)), s)
}

func process(res *core.Result, inputs []string, distinctByConstruction bool, digestName string) {
	h := sha256.New()
	// a result handed out earlier must survive later calls: the words of an input 1 / 16 calls back are held and must
	// still concatenate to that input (a reused buffer would be overwritten by the calls in between)
	type held struct {
		in    string
		words []string
	}
	var ring [16]held
	for idx, s := range inputs {
		if idx >= 16 {
			for _, back := range []int{1, 16} {
				hd := ring[(idx-back)%16]
				if hd.words != nil && strings.Join(hd.words, "") != hd.in {
					res.Fail("split-result-overwritten", "held result", fmt.Sprintf("the words returned by Split(%q) read %q after %d later call(s): a returned slice was overwritten", hd.in, hd.words, back), hd.in)
				}
			}
			res.Inc("held_split_results_rechecked")
		}
		ring[idx%16] = held{}
		if pk, _, _ := core.Guard(func() { ring[idx%16] = held{s, camelcase.Split(s)} }); pk {
			ring[idx%16] = held{}
		}
		res.Evals++
		if nontrivial(s) {
			if distinctByConstruction {
				res.DistinctN++
			} else {
				res.NonTrivial(s)
			}
		}
		if m := checkSplit(s); m != "" {
			fail(res, "split", s, checkSplit)
			continue
		}
		res.Inc("split_calls_checked")
		m, outs := checkConv(s)
		if m != "" {
			fail(res, "converter", s, func(x string) string { m, _ := checkConv(x); return m })
			continue
		}
		res.Count("converter_calls_checked", int64(2*len(converters)))
		for _, o := range outs {
			h.Write([]byte(o))
			h.Write([]byte{0})
		}
		if len(s) > 0 && !isAlnum(s[0]) {
			res.Inc("inputs_starting_with_non_alnum")
		}
		if !utf8.ValidString(s) {
			res.Inc("inputs_invalid_utf8")
		}
	}
	if digestName != "" {
		res.Digest(digestName, hex.EncodeToString(h.Sum(nil)))
	}
	// concurrent purity: 8 goroutines over the same inputs (sampled), compared element-wise
	step := 1
	if len(inputs) > 20000 {
		step = len(inputs) / 20000
	}
	var sample []string
	for i := 0; i < len(inputs); i += step {
		if checkSplit(inputs[i]) == "" {
			if m, _ := checkConv(inputs[i]); m == "" {
				sample = append(sample, inputs[i])
			}
		}
	}
	const G = 8
	outs := make([][]string, G)
	var wg sync.WaitGroup
	start := make(chan struct{})
	for g := 0; g < G; g++ {
		wg.Add(1)
		go func(g int) {
			defer wg.Done()
			<-start
			o := make([]string, 0, len(sample)*2)
			for i := range sample {
				// different goroutines walk in different directions to vary the overlap
				s := sample[i]
				if g%2 == 1 {
					s = sample[len(sample)-1-i]
				}
				c := converters[(i+g)%6]
				o = append(o, strings.Join(camelcase.Split(s), "\x00"), c.f(s))
			}
			outs[g] = o
		}(g)
	}
	close(start)
	wg.Wait()
	for g := 0; g < G; g++ {
		for i := range sample {
			s := sample[i]
			if g%2 == 1 {
				s = sample[len(sample)-1-i]
			}
			c := converters[(i+g)%6]
			if want := c.f(s); outs[g][2*i+1] != want {
				res.Fail("concurrent-purity", fmt.Sprintf("%s %q", c.name, s), fmt.Sprintf("%s(%q) from goroutine %d = %q, sequential = %q", c.name, s, g, outs[g][2*i+1], want), s)
			}
		}
	}
	res.Count("concurrent_calls_compared", int64(G*len(sample)*2))
}

func isAlnum(b byte) bool {
	return (b >= 'a' && b <= 'z') || (b >= 'A' && b <= 'Z') || (b >= '0' && b <= '9')
}

var randAlphabet = []string{"a", "b", "z", "A", "Q", "Z", "0", "7", "_", "-", ".", " ", "/", "~", "+", "é", "Ü", "ǅ", "ß", "İ", "ı", "世", "界", "́", "😀", "\x00", "\t", "\n",
	"\xff", "\xc3", "\xed\xa0\x80", "ID", "Id", "id", "HTTP", "v2", "ſ", "K",
	// every kind of broken UTF-8: lead bytes of each length alone, lone continuation bytes, overlong and truncated
	// sequences (a BOM / U+FFFD / emoji cut short), next to the intact BOM and U+FFFD themselves
	"\xc2", "\xe0", "\xe2", "\xef", "\xf0", "\xf4", "\x80", "\xbf", "\xc0\x80", "\xe2\x82", "\xef\xbb", "\xef\xbf", "\xf0\x9f\x98", "\xef\xbb\xbf", "\xef\xbf\xbd"}

var identFragments = []string{"user", "ID", "IDs", "Id", "s", "S", "es", "URL", "URLs", "API", "APIs", "IP", "IPs", "List", "From", "Text", "Is", "Valid", "DNS", "sec", "HTTP", "HTTPS", "Server", "v", "2", "V2", "x", "X",
	"_", "-", " ", ".", "only", "allowed", "parse", "A", "a", "é", "É", "ß", "Σ", "ς", "JSON", "json", "2fa", "3D", "i18n", "OAuth2", "IPv6", "utf8", "UTF8", "Ph", "D"}

func (p *prop) Run(c core.Case, w *core.Worker) core.Result {
	res := core.Result{CaseID: c.ID}
	switch c.Kind {
	case "exhaustive", "exhaustive-bytes":
		var sh shard
		c.Decode(&sh)
		sp := core.StringSpace{Alphabet: alphabet, MaxLen: sh.L}
		if c.Kind == "exhaustive-bytes" {
			sp = core.StringSpace{Alphabet: byteAlphabet, MaxLen: sh.L}
		}
		inputs := make([]string, 0, sh.Hi-sh.Lo)
		for i := sh.Lo; i < sh.Hi; i++ {
			inputs = append(inputs, sp.At(i))
		}
		// a duplicate shard must not be counted twice as distinct
		if sh.Dup {
			process(&res, inputs, true, fmt.Sprintf("shard-%d-%d", sh.Lo, sh.Hi))
			res.DistinctN = 0
		} else {
			process(&res, inputs, true, fmt.Sprintf("shard-%d-%d", sh.Lo, sh.Hi))
		}
		res.Sample(map[string]any{"Split": inputs[len(inputs)/2], "words": camelcaseSplitSafe(inputs[len(inputs)/2])}, 1)
	case "random":
		var rp map[string]int
		c.Decode(&rp)
		r := rand.New(rand.NewSource(c.Seed))
		inputs := make([]string, rp["n"])
		for i := range inputs {
			if i%3 == 2 {
				// identifier-like: realistic fragments (initialisms and their plurals, lone letters, digits, separators)
				inputs[i] = core.RandString(r, identFragments, 1+r.Intn(6))
				continue
			}
			inputs[i] = core.RandString(r, randAlphabet, 1+r.Intn(14))
		}
		process(&res, inputs, false, "")
		res.Sample(map[string]any{"Split": inputs[0], "words": camelcaseSplitSafe(inputs[0])}, 1)
	case "order":
		runOrder(c, w, &res)
	case "first-use":
		runFirstUse(c, w, &res)
	case "many-distinct":
		runManyDistinct(c, w, &res)
	case "segments":
		inputs := []string{"", "_id", "-x", ".hidden", " x", "_", "__", "-", "a_", "go", "type", "2fa", "c-d", "c.d", "c~d", "v2", "yaml.v3", "json-iterator", "_x", "~user", "+inf",
			"ID", "userID", "HTTPServer", "PDFLoader", "BöseÜberraschung", "BadUTF8\xe2\xe2\xa1", "99Bottles", "Two  spaces", "ǅx", "xǅ", "ǅ"}
		process(&res, inputs, false, "")
		// the import namer splits path segments: a path whose segment starts with punctuation must not take it down
		for _, path := range []string{"example.com/_x", "example.com/-y/z", "example.com/.z", "_", "example.com/a/_", "example.com/~u/pkg"} {
			tr := namer.NewDefaultImportTracker()
			pk, pv, _ := core.Guard(func() { tr.AddType(gengotypes.Ref(path, "T")) })
			res.Evals++
			res.NonTrivial("tracker|" + path)
			res.Inc("import_tracker_adds_checked")
			if pk {
				res.Fail("import-tracker-total", path, fmt.Sprintf("ImportTracker.AddType on %q panicked: %v", path, pv), path)
			}
		}
	}
	return res
}

// ---- order independence: the converters must be pure functions of their input, so the answers of a fresh process that
// sees the same inputs in the reverse order must be identical (catches memo caches keyed too coarsely)

var orderPairs = []string{"istanbul", "İstanbul", "ISTANBUL", "ıstanbul", "ΟΔΟΣ", "οδοσ", "οδος", "ß", "ẞ", "SS", "ss", "ǆx", "ǅx", "Ǆx", "K", "k", "K", "ſ", "s", "S",
	"id", "ID", "Id", "iD", "ıd", "İd", "userid", "userID", "UserId", "http_server", "HTTP_SERVER", "Http-Server", "ǅ", "ǆ", "Ǆ", "É", "é", "É", "é", "ﬁ", "FI", "fi", "ΐ", "ΐ"}

func convAll(inputs []string) [][]string {
	out := make([][]string, len(inputs))
	for i, s := range inputs {
		o := make([]string, 0, 6)
		for _, c := range converters[:6] {
			var r string
			core.Guard(func() { r = c.f(s) })
			o = append(o, r)
		}
		out[i] = o
	}
	return out
}

func init() {
	core.RegisterHelper("c19order", func(argFile string) {
		b, err := os.ReadFile(argFile)
		if err != nil {
			panic(err)
		}
		var inputs []string
		if err := json.Unmarshal(b, &inputs); err != nil {
			panic(err)
		}
		ob, _ := json.Marshal(convAll(inputs))
		_ = os.WriteFile(argFile+".out", ob, 0o644)
	})
}

// runFirstUse: fresh child processes (the -race build) whose first calls into the package are concurrent; every
// goroutine's answers must equal this process's sequential ones, nothing may panic, the race detector must stay silent.
func runFirstUse(c core.Case, w *core.Worker, res *core.Result) {
	var pa map[string]int
	c.Decode(&pa)
	r := rand.New(rand.NewSource(c.Seed))
	inputs := append([]string{}, orderPairs...)
	inputs = append(inputs, "", "_", "userID", "HTTPServer", "http_server", "some-kebab-case", "PDFLoader", "BöseÜberraschung", "99Bottles", "Two  spaces", "v2", "ǅx", "İstanbul", "x y z")
	// (inputs travel to the child as JSON: valid UTF-8 only)
	for i := 0; i < 60; i++ {
		inputs = append(inputs, core.RandString(r, []string{"a", "B", "c", "D", "1", "_", "-", " ", "é", "É", "ß", "İ", "x", "ID", "Http"}, 1+r.Intn(6)))
	}
	r.Shuffle(len(inputs), func(i, j int) { inputs[i], inputs[j] = inputs[j], inputs[i] })
	here := firstuse.Sequential("camelcase", inputs)
	fns := firstuse.Funcs["camelcase"]
	for child := 0; child < pa["children"]; child++ {
		ch := firstuse.Run(w.Scratch, fmt.Sprintf("c19-%d-%d", c.ID, child), firstuse.Arg{Kind: "camelcase", Procs: pa["procs"], G: pa["g"], Inputs: inputs})
		res.Inc("first_use_child_processes")
		if ch.Races > 0 {
			res.Fail("data-race", "first use", fmt.Sprintf("the race detector reported %d data race(s) in a process whose first camelcase calls were concurrent (%d goroutines, GOMAXPROCS %d):\n%s", ch.Races, pa["g"], pa["procs"], clipS(ch.Log, 3000)), nil)
			res.Count("first_use_race_reports", int64(ch.Races))
		}
		if ch.Crashed {
			res.Fail("first-use-crash", "first use", fmt.Sprintf("the child process died before writing its results: %s\n%s", ch.Err, clipS(ch.Log, 3000)), nil)
			continue
		}
		if ch.Err != "" {
			res.Inconclusive = append(res.Inconclusive, "first-use child: "+ch.Err+" "+clipS(ch.Log, 500))
			return
		}
		for g := range ch.Out {
			for i, s := range inputs {
				res.Evals++
				for k, fn := range fns {
					got := ch.Out[g][i][k]
					switch {
					case strings.HasPrefix(got, "\x00PANIC"):
						res.Fail("panic", "first use "+fn.Name, fmt.Sprintf("%s(%q) panicked in a process whose first camelcase calls were concurrent: %s", fn.Name, s, got[1:]), s)
					case got != here[i][k]:
						res.Fail("pure", "first use "+fn.Name, fmt.Sprintf("%s(%q) = %q in goroutine %d of a process whose first camelcase calls were concurrent, %q sequentially", fn.Name, s, got, g, here[i][k]), s)
					}
				}
			}
		}
		res.NonTrivial(fmt.Sprintf("first-use|%d|%d|%d|%d", c.Seed, child, pa["procs"], pa["g"]))
		res.Count("first_use_results_compared", int64(len(fns)*len(inputs)*len(ch.Out)))
	}
}

// runManyDistinct: very many distinct inputs through ONE process (enough for birthday collisions in any 32-bit key
// space), forwards in one fresh process and backwards in another; a memo keyed by anything less than the input itself
// makes the two disagree.
func runManyDistinct(c core.Case, w *core.Worker, res *core.Result) {
	var pa map[string]int
	c.Decode(&pa)
	r := rand.New(rand.NewSource(c.Seed))
	seen := map[string]bool{}
	inputs := make([]string, 0, pa["n"])
	alphabet := []string{"a", "b", "c", "d", "e", "x", "y", "z", "A", "B", "Z", "ID", "Http", "_", "-", " ", "1", "9", "é", "İ", "ß"}
	for len(inputs) < pa["n"] {
		s := core.RandString(r, alphabet, 3+r.Intn(8))
		if !seen[s] {
			seen[s] = true
			inputs = append(inputs, s)
		}
	}
	diffs, problem := firstuse.ManyDistinct(w.Scratch, fmt.Sprintf("c19many-%d", c.ID), "camelcase", inputs)
	if problem != "" {
		res.Inconclusive = append(res.Inconclusive, "many-distinct: "+clipS(problem, 800))
		return
	}
	res.Evals += int64(len(inputs))
	res.Count("many_distinct_inputs_compared_across_orders", int64(len(inputs)))
	res.NonTrivial(fmt.Sprintf("many-distinct|%d|%d", c.Seed, len(inputs)))
	for i, d := range diffs {
		if i >= 20 {
			break
		}
		res.Fail("pure", "many distinct "+d.Func, fmt.Sprintf("%s(%q) = %q in a process that saw %d distinct inputs forwards, %q in one that saw them backwards", d.Func, d.Input, d.Forward, len(inputs), d.Reverse), d.Input)
	}
}

func clipS(s string, n int) string {
	if len(s) <= n {
		return s
	}
	return s[:n] + "…"
}

func runOrder(c core.Case, w *core.Worker, res *core.Result) {
	var rp map[string]int
	c.Decode(&rp)
	r := rand.New(rand.NewSource(c.Seed))
	inputs := append([]string{}, orderPairs...)
	// case variants of random words: same letters, different case patterns
	for i := 0; i < rp["n"]; i++ {
		wd := core.RandString(r, []string{"i", "I", "İ", "ı", "s", "S", "ß", "ẞ", "ſ", "k", "K", "K", "a", "A", "é", "É", "σ", "ς", "Σ", "ǆ", "ǅ", "Ǆ", "d", "D", "_", "-", "1"}, 1+r.Intn(5))
		inputs = append(inputs, wd)
	}
	r.Shuffle(len(inputs), func(i, j int) { inputs[i], inputs[j] = inputs[j], inputs[i] })
	here := convAll(inputs)
	rev := make([]string, len(inputs))
	for i, s := range inputs {
		rev[len(inputs)-1-i] = s
	}
	dir, err := os.MkdirTemp(w.Scratch, "c19-")
	if err != nil {
		res.Inconclusive = append(res.Inconclusive, err.Error())
		return
	}
	defer os.RemoveAll(dir)
	argFile := filepath.Join(dir, "in.json")
	ib, _ := json.Marshal(rev)
	_ = os.WriteFile(argFile, ib, 0o644)
	exe := os.Getenv("VERIF_EXE")
	cmd := exec.Command(exe, "-helper", "c19order", argFile)
	if ob, err := cmd.CombinedOutput(); err != nil {
		res.Inconclusive = append(res.Inconclusive, fmt.Sprintf("helper process failed: %v %s", err, string(ob)))
		return
	}
	var there [][]string
	ob, _ := os.ReadFile(argFile + ".out")
	if err := json.Unmarshal(ob, &there); err != nil || len(there) != len(inputs) {
		res.Inconclusive = append(res.Inconclusive, "helper output unreadable")
		return
	}
	// the first answer this process ever gave for an input vs the answer of the reverse-order process
	first := map[string][]string{}
	for i, s := range inputs {
		if _, ok := first[s]; !ok {
			first[s] = here[i]
		}
	}
	firstThere := map[string][]string{}
	for i, s := range rev {
		if _, ok := firstThere[s]; !ok {
			firstThere[s] = there[i]
		}
	}
	for s, a := range first {
		res.Evals++
		res.NonTrivial("order|" + s)
		b := firstThere[s]
		for k := range a {
			if a[k] != b[k] {
				res.Fail("order-independent", converters[k].name, fmt.Sprintf("%s(%q) = %q in this process (inputs in one order) but %q in a fresh process that saw the same inputs in reverse order", converters[k].name, s, a[k], b[k]), s)
			}
		}
	}
	res.Count("order_independence_inputs_compared", int64(len(first)))
	res.Sample(map[string]any{"order_case_inputs": inputs[:min(8, len(inputs))]}, 1)
}

func camelcaseSplitSafe(s string) (w []string) {
	core.Guard(func() { w = camelcase.Split(s) })
	return
}
