// Package c03: the import block is exactly the set of referenced packages under unique valid names.
package c03

import (
	"bytes"
	"fmt"
	"go/ast"
	"go/parser"
	"go/token"
	"go/types"
	"math/rand"
	"net/url"
	"sort"
	"strings"
	"time"

	"github.com/octohelm/gengo/pkg/gengo"
	"github.com/octohelm/gengo/pkg/gengo/snippet"
	"github.com/octohelm/gengo/pkg/namer"
	gengotypes "github.com/octohelm/gengo/pkg/types"

	appsv1 "verif/fixtures/apps/v1"
	corev1 "verif/fixtures/core/v1"
	"verif/fixtures/fa"
	"verif/fixtures/fb"
	"verif/fixtures/vt"
	"verif/internal/core"
	"verif/typgen"
)

func init() { core.Register(&prop{}) }

type prop struct{}

func (*prop) ID() string    { return "C03" }
func (*prop) Level() string { return "exploration" }
func (*prop) Rule() string {
	return "unit level: seeded sets and orders of 2-16 import paths drawn from a pool aimed at the tracker (std twins rand/template, third-party clashing in 1, 2 and 3 trailing segments, vN suffixes, apis/domain segments, " +
		"segments that are Go keywords, start with a digit, differ only in punctuation or case, single-segment non-std paths, odd segments like _x, the target package itself); every path is referenced several times through a random reference kind " +
		"(ID(\"path.Name\"), ID(TypeName), generic instantiation strings with nested arguments, PkgExpose, ID(go/types composite mixing packages), Sprintf %T), each rendered separately through one SnippetWriter + tracker. " +
		"Oracles: after every render LocalNameOf(p) is unchanged for every package seen so far; the selector qualifiers of each rendered reference (parsed with go/parser) equal Imports()[path] of the packages the harness put there, target-package references unqualified; " +
		"at the end Imports() keys == exactly the non-target packages referenced, values pairwise distinct identifiers (not keywords, not _); and the Go type checker accepts `import (name \"path\" ...)` + `var Ci <rendered>` and resolves every Ci to the intended type (types.Identical), with no unused import. " +
		"pipeline level: 24 (quick) / 384 (thorough) real Execute runs with a scripted generator that references 2-9 std / fake third-party / module-local packages per type through ID, PkgExpose and %T; the import block of each written file (parsed with go/parser) must list exactly the referenced foreign packages under distinct valid names, every qualifier must be bound and every name used, and `go build ./...` must succeed. Non-trivial = the path set contains at least one clash (two paths with the same last segment, a keyword/digit/punctuation segment or a std twin); distinct by hash of the ordered path list + reference kinds."
}
func (*prop) Assumptions() []string {
	return []string{
		"no particular local name is demanded, only validity, distinctness, stability and body/block agreement",
		"paths whose last segment is a predeclared identifier (string, error, len ...) are not generated: shadowing is outside the statement",
		"packages are fabricated (every path resolves to a package declaring a fixed set of types); the judge is go/types",
	}
}
func (*prop) MinDistinct(tier string) int64 {
	if tier == "thorough" {
		return 100000
	}
	return 2000
}

const target = "example.com/mod/target"

var pool = []string{
	"math/rand", "crypto/rand", "text/template", "html/template", "net/url", "bytes", "time", "go/token", "go/types", "sort", "strings", "encoding/json", "io", "os", "context", "embed",
	"github.com/a/rand", "example.com/x/rand", "github.com/b/x/rand", "github.com/c/x/rand", "github.com/d/y/x/rand", "example.com/template",
	"github.com/a/b/v2", "github.com/c/b/v2", "k8s.io/api/core/v1", "k8s.io/api/apps/v1", "k8s.io/api/v1", "k8s.io/apimachinery/pkg/apis/meta/v1", "example.com/v2", "example.com/b",
	"example.com/pkg/apis/core/v1", "example.com/other/apis/core/v1", "example.com/svc/domain/user", "example.com/svc2/domain/user", "example.com/user", "example.com/apis", "example.com/x/domain",
	"github.com/json-iterator/go", "example.com/type", "example.com/x/func", "example.com/range", "example.com/a/go", "example.com/b/go", "example.com/select/default",
	"example.com/2fa", "example.com/x/2fa", "example.com/9", "example.com/7/9",
	"example.com/c-d", "example.com/cd", "example.com/c.d", "example.com/c_d", "example.com/c~d", "example.com/x/c-d", "example.com/x/cd",
	"rand", "template", "foo", "go", "x", "type",
	"example.com/_x", "example.com/-", "example.com/a/_", "example.com/日本", "example.com/a/日本",
	"github.com/Azure/Go-SDK", "github.com/azure/go-sdk", "github.com/Azure/go_sdk",
	"gopkg.in/yaml.v3", "gopkg.in/yaml.v2", "example.com/yaml",
	"example.com/mod/target/sub", "example.com/mod/other/target", "example.com/target",
	// third-party paths that END in a std package's full path (and those std packages)
	"errors", "github.com/pkg/errors", "golang.org/x/net/context", "example.com/x/math/rand", "example.com/y/crypto/rand", "slices", "golang.org/x/exp/slices",
	"github.com/x/encoding/json", "example.com/net/url", "example.com/fork/go/token", "example.com/vendor/text/template", "example.com/os", "example.com/a/io",
	"github.com/x/a--b", "example.com/foo-_bar", "example.com/bindings/c++", "example.com/a·b", "example.com/٣a", "example.com/a..b", "example.com/x__y", "example.com/a-.b", "example.com/--", "example.com/a+b",
	target,
}

// random segments over letters of all classes, digits and separators (runs of separators, odd symbols, non-ASCII digits)
var segAlphabet = []string{"a", "b", "Z", "1", "-", "-", "_", ".", "~", "+", "·", "٣", "é", "世"}

func randSegPath(r *rand.Rand) string {
	seg := core.RandString(r, segAlphabet, 1+r.Intn(5))
	if seg == "." || seg == ".." {
		seg = "a" + seg
	}
	switch r.Intn(3) {
	case 0:
		return seg
	case 1:
		return "example.com/r/" + seg
	}
	return "example.com/" + core.RandString(r, segAlphabet, 1+r.Intn(3)) + "x/" + seg
}

var keywordish = map[string]bool{"go": true, "type": true, "func": true, "range": true, "default": true, "select": true, "2fa": true, "9": true, "_x": true, "-": true, "_": true}

func lastSeg(p string) string {
	if i := strings.LastIndex(p, "/"); i >= 0 {
		return p[i+1:]
	}
	return p
}

func norm(s string) string {
	return strings.ToLower(strings.NewReplacer("-", "", ".", "", "_", "", "~", "").Replace(s))
}

func hasClash(paths []string) bool {
	seen := map[string]bool{}
	for _, p := range paths {
		l := lastSeg(p)
		if keywordish[l] || !token.IsIdentifier(norm(l)) {
			return true
		}
		n := norm(l)
		if seen[n] {
			return true
		}
		seen[n] = true
	}
	return false
}

type caseParams struct {
	N int `json:"n"`
}

func (*prop) Cases(seed int64, tier string) []core.Case {
	ncases, n := 48, 600
	if tier == "thorough" {
		ncases, n = 256, 2500
	}
	var cs []core.Case
	for i := 0; i < ncases; i++ {
		cs = append(cs, core.MkCase("path-sets", caseParams{n}))
	}
	cs = append(cs, core.MkCase("curated", nil))
	np, pn := 8, 3
	if tier == "thorough" {
		np, pn = 64, 16
	}
	for i := 0; i < np; i++ {
		cs = append(cs, core.MkCase("pipeline", caseParams{pn}))
	}
	return cs
}

type refSpec struct {
	Kind string       `json:"kind"`
	Expr *typgen.Expr `json:"expr"`
}

type scenario struct {
	Paths []string  `json:"paths"`
	Refs  []refSpec `json:"refs"`
}

// id-object: ID of a *types.TypeName loaded by the type checker (what generators pass: snippet.ID(named.Obj())) - it
// knows its package's DECLARED name, which differs from every path-derived name here (seeded change C03-n: a path
// first bound through a string reference was re-bound to the declared name by a later object reference)
var refKinds = []string{"id-string", "id-typename", "pkgexpose", "id-types", "sprintf-T-string", "sprintf-T-types", "id-generic-string", "id-object", "id-object"}

func genScenario(r *rand.Rand) scenario {
	n := 2 + r.Intn(15)
	perm := r.Perm(len(pool))
	var paths []string
	// bias: start from a clash family half of the time
	if r.Intn(2) == 0 {
		fam := [][]string{
			{"math/rand", "crypto/rand", "github.com/a/rand", "example.com/x/rand", "github.com/b/x/rand", "github.com/c/x/rand", "github.com/d/y/x/rand", "rand"},
			{"example.com/c-d", "example.com/cd", "example.com/c.d", "example.com/c_d", "example.com/c~d", "example.com/x/c-d", "example.com/x/cd"},
			{"github.com/json-iterator/go", "example.com/a/go", "example.com/b/go", "go", "example.com/type", "type"},
			{"text/template", "html/template", "template", "example.com/template"},
			{"k8s.io/api/core/v1", "k8s.io/api/apps/v1", "k8s.io/api/v1", "example.com/pkg/apis/core/v1", "example.com/other/apis/core/v1", "k8s.io/apimachinery/pkg/apis/meta/v1"},
			{"example.com/2fa", "example.com/x/2fa", "example.com/9", "example.com/7/9"},
			{"github.com/Azure/Go-SDK", "github.com/azure/go-sdk", "github.com/Azure/go_sdk"},
			{target, "example.com/mod/target/sub", "example.com/mod/other/target", "example.com/target"},
			{"example.com/svc/domain/user", "example.com/svc2/domain/user", "example.com/user"},
			{"errors", "github.com/pkg/errors", "context", "golang.org/x/net/context", "slices", "golang.org/x/exp/slices", "encoding/json", "github.com/x/encoding/json"},
			{"math/rand", "example.com/x/math/rand", "crypto/rand", "example.com/y/crypto/rand", "net/url", "example.com/net/url", "go/token", "example.com/fork/go/token", "text/template", "example.com/vendor/text/template", "os", "example.com/os", "io", "example.com/a/io"},
		}[r.Intn(11)]
		for _, i := range r.Perm(len(fam)) {
			paths = append(paths, fam[i])
		}
	}
	for _, i := range perm {
		if len(paths) >= n {
			break
		}
		dup := false
		for _, p := range paths {
			if p == pool[i] {
				dup = true
			}
		}
		if !dup {
			paths = append(paths, pool[i])
		}
	}
	if len(paths) > n {
		paths = paths[:n]
	}
	for k := 0; k < 2; k++ {
		rp := randSegPath(r)
		dup := false
		for _, p := range paths {
			if p == rp {
				dup = true
			}
		}
		if !dup {
			paths = append(paths, rp)
		}
	}
	r.Shuffle(len(paths), func(i, j int) { paths[i], paths[j] = paths[j], paths[i] })
	sc := scenario{Paths: paths}
	// references: walk the paths in order (first reference registers), then random repeats
	nrefs := len(paths) + r.Intn(2*len(paths))
	for i := 0; i < nrefs; i++ {
		var p string
		if i < len(paths) {
			p = paths[i]
		} else {
			p = paths[r.Intn(len(paths))]
		}
		kind := refKinds[r.Intn(len(refKinds))]
		g := &typgen.Gen{R: r, Paths: paths}
		var e *typgen.Expr
		switch kind {
		case "id-string", "id-typename", "pkgexpose", "sprintf-T-string", "id-object":
			e = &typgen.Expr{Kind: "named", Path: p, Name: typgen.NamedPlain[r.Intn(len(typgen.NamedPlain))]}
		case "id-generic-string":
			e = &typgen.Expr{Kind: "named", Path: p, Name: "Pair", Args: []*typgen.Expr{
				{Kind: "named", Path: paths[r.Intn(len(paths))], Name: "T"},
				{Kind: "named", Path: paths[r.Intn(len(paths))], Name: "List", Args: []*typgen.Expr{{Kind: "named", Path: paths[r.Intn(len(paths))], Name: "U"}}},
			}}
			if r.Intn(2) == 0 {
				e.Args[0] = &typgen.Expr{Kind: "basic", Name: "string"}
			}
		default:
			// composite mixing packages; make sure p is mentioned
			e = &typgen.Expr{Kind: "map", Key: &typgen.Expr{Kind: "named", Path: p, Name: "T"}, Elem: g.Expr(2)}
			if r.Intn(3) == 0 {
				e = &typgen.Expr{Kind: "struct", Fields: []typgen.Field{{Name: "A", Type: &typgen.Expr{Kind: "named", Path: p, Name: "S"}}, {Name: "B", Type: g.Expr(1), Tag: `json:"b"`}}}
			}
		}
		sc.Refs = append(sc.Refs, refSpec{kind, e})
	}
	return sc
}

func qualifiers(src string) ([]string, error) {
	x, err := parser.ParseExpr(src)
	if err != nil {
		return nil, err
	}
	var out []string
	ast.Inspect(x, func(n ast.Node) bool {
		if s, ok := n.(*ast.SelectorExpr); ok {
			if id, ok := s.X.(*ast.Ident); ok {
				out = append(out, id.Name)
			}
		}
		return true
	})
	return out, nil
}

// check runs one scenario; returns (oracle, message) of the first disagreement.
func check(sc scenario, res *core.Result) (string, string) {
	w := typgen.NewWorld()
	var buf bytes.Buffer
	tracker := namer.NewDefaultImportTracker()
	sw := gengo.NewSnippetWriter(&buf, namer.NameSystems{"raw": namer.NewRawNamer(target, tracker)})
	seen := map[string]string{}
	referenced := map[string]bool{}
	var cases []typgen.CheckCase
	resolve := func(path, name string) (types.Object, error) {
		p, err := w.Import(path)
		if err != nil {
			return nil, err
		}
		o := p.Scope().Lookup(name)
		if o == nil {
			return nil, fmt.Errorf("no %s", name)
		}
		return o, nil
	}
	var sns []snippet.Snippet
	for i, ref := range sc.Refs {
		buf.Reset()
		var sn snippet.Snippet
		switch ref.Kind {
		case "id-string", "id-generic-string":
			s, _ := ref.Expr.RefString()
			sn = snippet.ID(s)
		case "sprintf-T-string":
			s, _ := ref.Expr.RefString()
			sn = snippet.Sprintf("%T", s)
		case "id-typename":
			s, _ := ref.Expr.RefString()
			sn = snippet.ID(gengotypes.Ref(ref.Expr.Path, s[len(ref.Expr.Path)+1:]))
		case "pkgexpose":
			sn = snippet.PkgExpose(ref.Expr.Path, ref.Expr.Name)
		case "id-object":
			o, err := resolve(ref.Expr.Path, ref.Expr.Name)
			if err != nil {
				return "harness", err.Error()
			}
			sn = snippet.ID(o)
		case "id-types", "sprintf-T-types":
			lp, _ := w.Import(target)
			tt, err := ref.Expr.Types(resolve, lp)
			if err != nil {
				return "harness", err.Error()
			}
			if ref.Kind == "id-types" {
				sn = snippet.ID(tt)
			} else {
				sn = snippet.Sprintf("%T", tt)
			}
		}
		if pk, pv, _ := core.Guard(func() { sw.Render(sn) }); pk {
			return "render-panic", fmt.Sprintf("reference %d (%s %s) panicked: %v", i, ref.Kind, ref.Expr, pv)
		}
		sns = append(sns, sn)
		text := buf.String()
		var paths []string
		ref.Expr.Paths(&paths)
		for _, p := range paths {
			if p != target {
				referenced[p] = true
			}
		}
		// stability of every name seen so far
		for p, n := range seen {
			if got := tracker.LocalNameOf(p); got != n {
				return "name-stable", fmt.Sprintf("after reference %d the local name of %q changed from %q to %q", i, p, n, got)
			}
		}
		for p := range referenced {
			n := tracker.LocalNameOf(p)
			if n2 := tracker.LocalNameOf(p); n2 != n {
				return "name-stable", fmt.Sprintf("LocalNameOf(%q) returned %q then %q", p, n, n2)
			}
			if _, ok := seen[p]; !ok {
				seen[p] = n
			}
		}
		// qualifiers in the rendered text
		quals, err := qualifiers(text)
		if err != nil {
			return "qualifiers", fmt.Sprintf("reference %d (%s %s) rendered %q which does not parse as an expression: %v", i, ref.Kind, ref.Expr, text, err)
		}
		var want []string
		for _, p := range paths {
			if p == target {
				continue
			}
			want = append(want, tracker.Imports()[p])
		}
		if strings.Join(quals, ",") != strings.Join(want, ",") {
			return "qualifiers", fmt.Sprintf("reference %d (%s %s) rendered %q with qualifiers %v, want %v (imports %v)", i, ref.Kind, ref.Expr, text, quals, want, tracker.Imports())
		}
		if res != nil {
			res.Inc("references_rendered")
			res.Inc("ref_kind_" + ref.Kind)
		}
		cases = append(cases, typgen.CheckCase{Rendered: text, Want: ref.Expr})
	}
	imports := tracker.Imports()
	for p := range referenced {
		if _, ok := imports[p]; !ok {
			return "imports-exact", fmt.Sprintf("package %q is referenced but missing from Imports() %v", p, imports)
		}
	}
	// the same snippet VALUES rendered once more, in reverse order, into a second writer with its own import table
	// (snippets kept in variables are rendered for many files): the second writer's table must be complete and every
	// qualifier must be the name bound there - nothing remembered from the first rendering may be reused
	{
		var buf2 bytes.Buffer
		tracker2 := namer.NewDefaultImportTracker()
		sw2 := gengo.NewSnippetWriter(&buf2, namer.NameSystems{"raw": namer.NewRawNamer(target, tracker2)})
		for i := len(sns) - 1; i >= 0; i-- {
			buf2.Reset()
			ref := sc.Refs[i]
			if pk, pv, _ := core.Guard(func() { sw2.Render(sns[i]) }); pk {
				return "render-panic", fmt.Sprintf("reference %d (%s %s) panicked when rendered into a second writer: %v", i, ref.Kind, ref.Expr, pv)
			}
			quals, err := qualifiers(buf2.String())
			if err != nil {
				return "second-writer", fmt.Sprintf("reference %d (%s %s) rendered %q into a second writer, which does not parse: %v", i, ref.Kind, ref.Expr, buf2.String(), err)
			}
			var paths, want []string
			ref.Expr.Paths(&paths)
			for _, p := range paths {
				if p != target {
					want = append(want, tracker2.Imports()[p])
				}
			}
			if strings.Join(quals, ",") != strings.Join(want, ",") {
				return "second-writer", fmt.Sprintf("reference %d (%s %s), a snippet value rendered before into another writer, rendered %q with qualifiers %v, want %v (imports of the second writer %v)", i, ref.Kind, ref.Expr, buf2.String(), quals, want, tracker2.Imports())
			}
		}
		imports2 := tracker2.Imports()
		for p := range referenced {
			if _, ok := imports2[p]; !ok {
				return "second-writer", fmt.Sprintf("package %q is referenced by a snippet value rendered into a second writer but missing from that writer's Imports() %v", p, imports2)
			}
		}
		for p := range imports2 {
			if !referenced[p] {
				return "second-writer", fmt.Sprintf("package %q is in the second writer's Imports() but was never referenced", p)
			}
		}
		if res != nil {
			res.Count("snippet_values_rendered_into_a_second_writer", int64(len(sns)))
		}
	}
	names := map[string]string{}
	var keys []string
	for p := range imports {
		keys = append(keys, p)
	}
	sort.Strings(keys)
	for _, p := range keys {
		n := imports[p]
		if !referenced[p] {
			return "imports-exact", fmt.Sprintf("package %q is in Imports() but was never referenced", p)
		}
		if !token.IsIdentifier(n) || n == "_" {
			return "name-valid", fmt.Sprintf("package %q is bound to %q, not a valid non-keyword identifier", p, n)
		}
		if o, ok := names[n]; ok {
			return "name-unique", fmt.Sprintf("packages %q and %q are both bound to %q", o, p, n)
		}
		names[n] = p
		if p2, ok := tracker.PathOf(n); !ok || p2 != p {
			return "name-unique", fmt.Sprintf("PathOf(%q) = %q,%v but Imports()[%q] = %q", n, p2, ok, p, n)
		}
	}
	bad, fileErrs, src := typgen.Judge(w, target, imports, cases)
	if len(fileErrs) > 0 {
		return "typecheck-file", fmt.Sprintf("the assembled file does not type-check: %v\n%s", fileErrs, firstLines(src, 30))
	}
	if len(bad) > 0 {
		v := bad[0]
		return "typecheck-ref", fmt.Sprintf("reference %d (%s %s) rendered %q: %s (imports %v)", v.Index, sc.Refs[v.Index].Kind, sc.Refs[v.Index].Expr, cases[v.Index].Rendered, v.Msg, imports)
	}
	if res != nil {
		res.Count("typechecked_references", int64(len(cases)))
		res.Count("import_names_validated", int64(len(imports)))
	}
	return "", ""
}

// checkValueTwins: one value literal (snippet.Value is a writer built on the naming system too) that holds values of two
// types with the SAME package name and type name from different import paths (apps/v1.Spec, core/v1.Spec), rendered
// after the scenario's paths have taken their names in this writer. Every qualifier in the text must be the name the
// writer's import table binds to the package that field's type comes from, and the table must hold exactly the
// referenced packages.
func checkValueTwins(sc scenario) (string, string) {
	const appsPath, corePath, vtPath = "verif/fixtures/apps/v1", "verif/fixtures/core/v1", "verif/fixtures/vt"
	var buf bytes.Buffer
	tracker := namer.NewDefaultImportTracker()
	sw := gengo.NewSnippetWriter(&buf, namer.NameSystems{"raw": namer.NewRawNamer(target, tracker)})
	// some of the scenario's paths first (string references only: they need no fabricated world), so that names are taken
	pre := map[string]bool{}
	for i, ref := range sc.Refs {
		if i >= 4 {
			break
		}
		if s, ok := ref.Expr.RefString(); ok && ref.Expr.Kind == "named" && ref.Expr.Path != "" && ref.Expr.Path != target {
			if pk, _, _ := core.Guard(func() { sw.Render(snippet.ID(s)) }); pk {
				return "", "" // reported by the main pass
			}
			var ps []string
			ref.Expr.Paths(&ps)
			for _, p := range ps {
				pre[p] = true
			}
		}
	}
	ka, kc := appsv1.Kind("ka"), corev1.Kind("kc")
	v := vt.K8s{A: appsv1.Spec{Name: "a"}, C: corev1.Spec{Name: "c"}, PA: &ka, PC: &kc, LA: []appsv1.Spec{{Name: "la"}}, MC: map[string]corev1.Spec{"k": {Name: "mc"}}}
	buf.Reset()
	if pk, pv, _ := core.Guard(func() { sw.Render(snippet.Value(v)) }); pk {
		return "render-panic", fmt.Sprintf("snippet.Value(vt.K8s{...}) panicked: %v", pv)
	}
	text := buf.String()
	x, err := parser.ParseExpr(text)
	if err != nil {
		return "value-twins", fmt.Sprintf("snippet.Value(vt.K8s{...}) rendered %q which is not an expression: %v", text, err)
	}
	imports := tracker.Imports()
	wantOf := map[string]string{"A": appsPath, "C": corePath, "PA": appsPath, "PC": corePath, "LA": appsPath, "MC": corePath}
	top, ok := x.(*ast.CompositeLit)
	if !ok {
		return "value-twins", fmt.Sprintf("snippet.Value(vt.K8s{...}) rendered %q, not a composite literal", text)
	}
	if se, ok := top.Type.(*ast.SelectorExpr); !ok || fmt.Sprint(se.X) != imports[vtPath] {
		return "value-twins", fmt.Sprintf("the literal's own type is not qualified with the name bound to %s (%q): %s", vtPath, imports[vtPath], firstLines(text, 3))
	}
	for _, el := range top.Elts {
		kv, ok := el.(*ast.KeyValueExpr)
		if !ok {
			continue
		}
		field := fmt.Sprint(kv.Key)
		path, ok := wantOf[field]
		if !ok {
			continue
		}
		var quals []string
		ast.Inspect(kv.Value, func(n ast.Node) bool {
			if se, ok := n.(*ast.SelectorExpr); ok {
				if id, ok := se.X.(*ast.Ident); ok {
					quals = append(quals, id.Name)
				}
			}
			return true
		})
		if len(quals) == 0 {
			return "value-twins", fmt.Sprintf("field %s of the rendered vt.K8s literal names no package at all: %s", field, text)
		}
		for _, q := range quals {
			if q != imports[path] {
				return "value-twins", fmt.Sprintf("field %s of the rendered vt.K8s literal (a value of a type of %s) is qualified with %q, but that package is bound to %q (imports %v):\n%s", field, path, q, imports[path], imports, text)
			}
		}
		delete(wantOf, field)
	}
	if len(wantOf) > 0 {
		return "value-twins", fmt.Sprintf("fields %v are missing from the rendered vt.K8s literal:\n%s", wantOf, text)
	}
	for _, p := range []string{appsPath, corePath, vtPath} {
		if _, ok := imports[p]; !ok {
			return "value-twins", fmt.Sprintf("package %q is referenced by the value literal but missing from Imports() %v", p, imports)
		}
	}
	for p := range imports {
		if p != appsPath && p != corePath && p != vtPath && !pre[p] {
			return "value-twins", fmt.Sprintf("package %q is in Imports() but nothing references it", p)
		}
	}
	if imports[appsPath] == imports[corePath] {
		return "value-twins", fmt.Sprintf("%s and %s are both bound to %q", appsPath, corePath, imports[appsPath])
	}
	return "", ""
}

func firstLines(s string, n int) string {
	ls := strings.Split(s, "\n")
	if len(ls) > n {
		ls = ls[:n]
	}
	return strings.Join(ls, "\n")
}

func shrink(sc scenario, oracle string) scenario {
	fails := func(s scenario) bool { o, m := check(s, nil); return m != "" && o == oracle }
	sc.Refs = core.ShrinkSlice(sc.Refs, func(r []refSpec) bool { return fails(scenario{sc.Paths, r}) })
	// keep only the paths still mentioned
	used := map[string]bool{}
	for _, r := range sc.Refs {
		var ps []string
		r.Expr.Paths(&ps)
		for _, p := range ps {
			used[p] = true
		}
	}
	var np []string
	for _, p := range sc.Paths {
		if used[p] {
			np = append(np, p)
		}
	}
	sc.Paths = np
	return sc
}

func key(sc scenario) string {
	var b strings.Builder
	for _, r := range sc.Refs {
		fmt.Fprintf(&b, "%s %s; ", r.Kind, r.Expr)
	}
	return b.String()
}

func (p *prop) runScenario(res *core.Result, sc scenario) {
	res.Evals++
	if hasClash(sc.Paths) {
		res.NonTrivial(strings.Join(sc.Paths, ",") + "|" + key(sc))
		res.Inc("scenarios_with_clash")
	}
	if o, m := check(sc, res); m != "" {
		sh := shrink(sc, o)
		_, m2 := check(sh, nil)
		res.Fail(o, key(sh), fmt.Sprintf("%s\nshrunk to references [%s]: %s", m, key(sh), m2), sc)
	}
	// (every 16th scenario: the oracle's input varies only in the names already taken)
	if res.Evals%16 == 0 {
		if o, m := checkValueTwins(sc); m != "" {
			res.Fail(o, "vt.K8s", m, sc)
		}
		res.Inc("value_literals_with_same_named_packages_checked")
	}
}

func (p *prop) Run(c core.Case, w *core.Worker) core.Result {
	res := core.Result{CaseID: c.ID}
	switch c.Kind {
	case "path-sets":
		var cp caseParams
		c.Decode(&cp)
		r := rand.New(rand.NewSource(c.Seed))
		for i := 0; i < cp.N; i++ {
			sc := genScenario(r)
			p.runScenario(&res, sc)
			if i == 0 {
				res.Sample(map[string]any{"paths": sc.Paths, "first_refs": key(scenario{Refs: sc.Refs[:min(3, len(sc.Refs))]})}, 1)
			}
		}
	case "pipeline":
		p.runPipeline(c, w, &res)
	case "curated":
		named := func(p string) refSpec {
			return refSpec{"id-string", &typgen.Expr{Kind: "named", Path: p, Name: "T"}}
		}
		for _, paths := range [][]string{
			{"github.com/json-iterator/go"},
			{"example.com/type"}, {"example.com/2fa"}, {"go"}, {"example.com/_x"}, {"example.com/-"}, {"example.com/a/_"},
			{"example.com/c-d", "example.com/cd", "example.com/c.d"},
			{"example.com/cd", "example.com/c.d", "example.com/c-d", "example.com/c_d", "example.com/c~d"},
			{"math/rand", "rand"}, {"rand", "math/rand", "crypto/rand"}, {"template"}, {"rand"},
			{"github.com/a/rand", "example.com/x/rand", "github.com/b/x/rand", "github.com/c/x/rand", "github.com/d/y/x/rand"},
			{"example.com/a/go", "example.com/b/go", "github.com/json-iterator/go", "go"},
			{target, "example.com/target", "example.com/mod/other/target"},
		} {
			sc := scenario{Paths: paths}
			for _, pth := range paths {
				sc.Refs = append(sc.Refs, named(pth))
			}
			for _, pth := range paths {
				sc.Refs = append(sc.Refs, refSpec{"pkgexpose", &typgen.Expr{Kind: "named", Path: pth, Name: "U"}})
			}
			p.runScenario(&res, sc)
		}
		runExposeOfInstantiations(&res)
	}
	return res
}

// runExposeOfInstantiations: PkgExposeFor / PkgExposeOf of generic instantiations whose type arguments live in other
// packages than the generic type. Only the type's own package is referenced by the rendered text (`fb.List`), so only
// that package may be imported (seeded change C03-m: the type arguments were walked - and registered - before being cut).
func runExposeOfInstantiations(res *core.Result) {
	const fap, fbp = "verif/fixtures/fa", "verif/fixtures/fb"
	for _, tc := range []struct {
		desc    string
		sn      snippet.Snippet
		pkg     string
		exposed string
		into    string
	}{
		{"PkgExposeFor[fb.List[fa.T]]", snippet.PkgExposeFor[fb.List[fa.T]](), fbp, "List", target},
		{"PkgExposeFor[fa.Pair[fb.T, bytes.Buffer]]", snippet.PkgExposeFor[fa.Pair[fb.T, bytes.Buffer]](), fap, "Pair", target},
		{"PkgExposeFor[fb.List[fa.Pair[fa.T, url.URL]]]", snippet.PkgExposeFor[fb.List[fa.Pair[fa.T, url.URL]]](), fbp, "List", target},
		{"PkgExposeOf(&fa.List[fb.S]{})", snippet.PkgExposeOf(&fa.List[fb.S]{}), fap, "List", target},
		{"PkgExposeOf(fb.Pair[fa.U, time.Duration]{})", snippet.PkgExposeOf(fb.Pair[fa.U, time.Duration]{}), fbp, "Pair", target},
		{"PkgExposeFor[fa.List[fb.T]] rendered into fa itself", snippet.PkgExposeFor[fa.List[fb.T]](), fap, "List", fap},
		{"PkgExposeFor[fb.Pair[fa.T, fa.U]](\"Make\")", snippet.PkgExposeFor[fb.Pair[fa.T, fa.U]]("Make"), fbp, "Make", target},
	} {
		tr := namer.NewDefaultImportTracker()
		var buf bytes.Buffer
		w := gengo.NewSnippetWriter(&buf, namer.NameSystems{"raw": namer.NewRawNamer(tc.into, tr)})
		pk, pv, _ := core.Guard(func() { w.Render(tc.sn) })
		res.Evals++
		res.Inc("expose_of_generic_instantiations_rendered")
		res.NonTrivial("expose-inst|" + tc.desc)
		if pk {
			res.Fail("expose-instantiation", "panic", fmt.Sprintf("%s: rendering panicked: %v", tc.desc, pv), nil)
			continue
		}
		imps := tr.Imports()
		want := map[string]bool{}
		wantText := tc.exposed
		if tc.pkg != tc.into {
			want[tc.pkg] = true
			wantText = imps[tc.pkg] + "." + tc.exposed
		}
		for pth := range imps {
			if !want[pth] {
				res.Fail("expose-instantiation", "unused import", fmt.Sprintf("%s rendered %q but registered the import %q, which the text never references (imports: %v)", tc.desc, buf.String(), pth, imps), nil)
			}
		}
		for pth := range want {
			if _, ok := imps[pth]; !ok {
				res.Fail("expose-instantiation", "missing import", fmt.Sprintf("%s rendered %q without registering %q (imports: %v)", tc.desc, buf.String(), pth, imps), nil)
			}
		}
		if buf.String() != wantText {
			res.Fail("expose-instantiation", "text", fmt.Sprintf("%s rendered %q, want %q (imports: %v)", tc.desc, buf.String(), wantText, imps), nil)
		}
	}
}
