package c03

import (
	"fmt"
	"go/ast"
	"go/parser"
	"go/token"
	"go/types"
	"math/rand"
	"os"
	"os/exec"
	"path/filepath"
	"sort"
	"strconv"
	"strings"

	"github.com/octohelm/gengo/pkg/gengo"
	"github.com/octohelm/gengo/pkg/gengo/snippet"

	"verif/internal/core"
	"verif/internal/fixture"
	"verif/internal/pipeline"
)

// pipeline level: real Execute runs; the import block of every written file is compared with the packages the
// scripted generator referenced, and the module is built by the real toolchain.

const pmod = "example.com/c03p"
const pdep = "example.com/dep"

var depDirs = []string{"json-iterator/go", "c-d", "cd", "c.d", "x/rand", "y/rand", "type", "2fa", "a/v2", "b/v2", "apis/core/v1", "other/apis/core/v1", "x/template", "a--b"}

var stdTypes = []string{"bytes.Buffer", "time.Duration", "math/rand.Rand", "text/template.Template", "html/template.Template", "go/token.Pos", "net/url.URL", "sort.StringSlice",
	"strings.Builder", "sync.Mutex", "os.File", "io.Reader", "context.Context", "encoding/json.Decoder", "go/ast.File", "go/types.Package", "regexp.Regexp", "bufio.Reader"}

func (p *prop) runPipeline(c core.Case, w *core.Worker, res *core.Result) {
	var cp caseParams
	c.Decode(&cp)
	r := rand.New(rand.NewSource(c.Seed))
	for i := 0; i < cp.N; i++ {
		p.pipelineModule(c, w, res, r, i)
	}
}

func (p *prop) pipelineModule(c core.Case, w *core.Worker, res *core.Result, r *rand.Rand, idx int) {
	extra := fmt.Sprintf("\nrequire %s v0.0.0\n\nreplace %s => ./_deps/dep\n", pdep, pdep)
	m, err := fixture.New(w.Scratch, fmt.Sprintf("c03p-%d-%d", c.ID, idx), pmod, "1.24", extra)
	if err != nil {
		res.Inconclusive = append(res.Inconclusive, err.Error())
		return
	}
	defer m.Remove()
	m.MustWrite("_deps/dep/go.mod", "module "+pdep+"\n\ngo 1.18\n")
	declared := map[string]string{pmod + "/one": "one", pmod + "/two": "two"}
	for i, d := range depDirs {
		m.MustWrite(filepath.Join("_deps/dep", d, "x.go"), fmt.Sprintf("package p%d\n\ntype Thing struct{}\n\nfunc Make() Thing { return Thing{} }\n", i))
		declared[pdep+"/"+d] = fmt.Sprintf("p%d", i)
	}
	m.MustWrite(filepath.Join("_deps/dep", "never/used", "x.go"), "package neverused\n\ntype Thing struct{}\n")
	declared[pdep+"/never/used"] = "neverused"
	// two packages; the second one is referenced from the first (a module-local import) and references itself
	m.MustWrite("one/one.go", "// +gengo:imp\npackage one\n\ntype A struct{}\n\ntype B int\n")
	m.MustWrite("two/two.go", "// +gengo:imp\npackage two\n\ntype Local struct{}\n\ntype C map[string]int\n")
	refsByPkg := map[string]map[string]bool{}
	b := &pipeline.Behaviour{Name: "imp"}
	b.OnType = func(c gengo.Context, named *types.Named, inst *pipeline.Instance) error {
		pkgPath := c.Package("").Pkg().Path()
		if refsByPkg[pkgPath] == nil {
			refsByPkg[pkgPath] = map[string]bool{}
		}
		n := 2 + r.Intn(8)
		for k := 0; k < n; k++ {
			var ref string
			switch r.Intn(5) {
			case 0, 1:
				ref = stdTypes[r.Intn(len(stdTypes))]
			case 2, 3:
				ref = pdep + "/" + depDirs[r.Intn(len(depDirs))] + ".Thing"
			default:
				ref = pmod + "/two.Local" // own package when rendering for two, foreign for one
			}
			pp := ref[:strings.LastIndex(ref, ".")]
			if pp != pkgPath {
				refsByPkg[pkgPath][pp] = true
			}
			switch r.Intn(4) {
			case 3:
				// one Args map shared by several templates: the arguments this format never mentions must leave no
				// trace - neither text nor an import (seeded change C03-l: every argument rendered once up front)
				c.RenderT("var _ @T\n\n", snippet.Args{
					"T":       snippet.ID(ref),
					"Unused":  snippet.ID(pdep + "/never/used.Thing"),
					"Unused2": snippet.PkgExpose("container/list", "New"),
					"Unused3": snippet.Value(token.Pos(7)),
					"Unused4": snippet.Sprintf("%T", "encoding/xml.Decoder"),
				})
				res.Inc("pipeline_templates_with_unmentioned_arguments")
			case 0:
				c.RenderT("var _ @T\n\n", snippet.Arg("T", snippet.ID(ref)))
			case 1:
				c.RenderT("var _ map[string][]*@T\n\n", snippet.Arg("T", snippet.ID(ref)))
			default:
				if strings.HasSuffix(ref, ".Thing") {
					c.RenderT("var _ = @f()\n\n", snippet.Arg("f", snippet.PkgExpose(pp, "Make")))
				} else {
					c.Render(snippet.Sprintf("var _ %T\n\n", ref))
				}
			}
		}
		return nil
	}
	out := pipeline.Execute(m.Root, &gengo.GeneratorArgs{Entrypoint: []string{"./one", "./two"}, OutputFileBaseName: "zz_generated"}, pipeline.New(b))
	res.Inc("pipeline_gengo_runs")
	if out.Failed() {
		res.Fail("pipeline-execute", "execute-error", "Execute failed: "+out.ErrString(), nil)
		return
	}
	for _, pk := range []string{"one", "two"} {
		rel := filepath.Join(pk, "zz_generated.imp.go")
		src, ok := m.Read(rel)
		want := refsByPkg[pmod+"/"+pk]
		res.Evals++
		var wl []string
		for k := range want {
			wl = append(wl, k)
		}
		sort.Strings(wl)
		if hasClash(wl) {
			res.NonTrivial("pipeline|" + strings.Join(wl, ","))
		}
		if !ok {
			res.Fail("pipeline-file", "missing", rel+" was not written", nil)
			continue
		}
		fset := token.NewFileSet()
		f, err := parser.ParseFile(fset, rel, src, 0)
		if err != nil {
			res.Fail("pipeline-parse", "parse", fmt.Sprintf("%s does not parse: %v\n%s", rel, err, firstLines(src, 40)), nil)
			continue
		}
		got := map[string]string{}
		names := map[string]string{}
		for _, im := range f.Imports {
			path, _ := strconv.Unquote(im.Path.Value)
			name := ""
			if im.Name != nil {
				name = im.Name.Name
			} else {
				// no explicit name: the import binds the package's DECLARED name (std: last path element; the
				// dependency packages are declared as p<i> whatever their directory is called)
				name = declared[path]
				if name == "" {
					name = path[strings.LastIndex(path, "/")+1:]
				}
				res.Inc("pipeline_imports_without_explicit_name")
			}
			if _, dup := got[path]; dup {
				res.Fail("pipeline-import-block", "duplicate path", fmt.Sprintf("%s imports %q twice", rel, path), nil)
			}
			got[path] = name
			if name == "" || name == "_" || name == "." || !token.IsIdentifier(name) {
				res.Fail("pipeline-import-block", "invalid name", fmt.Sprintf("%s binds %q to %q", rel, path, name), nil)
			}
			if o, dup := names[name]; dup {
				res.Fail("pipeline-import-block", "duplicate name", fmt.Sprintf("%s binds both %q and %q to %q", rel, o, path, name), nil)
			}
			names[name] = path
		}
		for pth := range want {
			if _, ok := got[pth]; !ok {
				res.Fail("pipeline-import-block", "missing import", fmt.Sprintf("%s references %q but does not import it; imports: %v", rel, pth, got), nil)
			}
		}
		for pth := range got {
			if !want[pth] {
				res.Fail("pipeline-import-block", "unused import", fmt.Sprintf("%s imports %q which the body never references", rel, pth), nil)
			}
		}
		// every qualifier in the body is an import name, every import name is used
		used := map[string]bool{}
		ast.Inspect(f, func(n ast.Node) bool {
			if s, ok := n.(*ast.SelectorExpr); ok {
				if id, ok := s.X.(*ast.Ident); ok {
					used[id.Name] = true
					if _, ok := names[id.Name]; !ok {
						res.Fail("pipeline-qualifier", "unbound", fmt.Sprintf("%s uses qualifier %q which no import binds", rel, id.Name), nil)
					}
				}
			}
			return true
		})
		for n := range names {
			if !used[n] {
				res.Fail("pipeline-qualifier", "unused name", fmt.Sprintf("%s binds %q but never uses it", rel, n), nil)
			}
		}
		res.Count("pipeline_import_specs_checked", int64(len(got)))
	}
	cmd := exec.Command("go", "build", "./...")
	cmd.Dir = m.Root
	cmd.Env = append(os.Environ(), "GOFLAGS=-mod=mod")
	if ob, err := cmd.CombinedOutput(); err != nil {
		g1, _ := m.Read("one/zz_generated.imp.go")
		res.Fail("pipeline-builds", "go build", fmt.Sprintf("go build ./... fails after generation: %s\n--- one/zz_generated.imp.go:\n%s", string(ob), firstLines(g1, 40)), nil)
	}
	res.Inc("pipeline_go_build_runs")
}
