// Package c07: gengo only touches its own output files.
package c07

import (
	"fmt"
	"math/rand"
	"os"
	"os/exec"
	"path/filepath"
	"regexp"
	"sort"
	"strings"

	"verif/internal/core"
	"verif/internal/fixture"
	"verif/internal/layout"
	"verif/internal/specgen"
)

func init() { core.Register(&prop{}) }

type prop struct{}

func (*prop) ID() string    { return "C07" }
func (*prop) Level() string { return "exploration" }
func (*prop) Rule() string {
	return "seeded module layouts (single-module, or with a nested module and a look-alike sibling module - example.com/c07/tools, example.com/c07-contrib - imported through replace directives; package in the module root or not, nested package, an unselected package with its own outputs, a testdata directory, non-Go files, look-alikes <base>X.go / <base> / <base>_test.go / <base>.notes.txt, a stale <base>.old.go that is part of the package, outputs of generators that are no longer run, pre-existing / missing / garbage gengo.sum) x All on/off x OutputFileBaseName in {zz_generated, zz, gen.out} " +
		"x per (package, generator) behaviour in {renders, renders only from a Defer callback, renders nothing, ErrSkip for all, ErrIgnore+nothing, ErrIgnore for one type and ErrSkip / nil for the others (either order), ErrIgnore+something, alias-only, alias ErrIgnore+nothing} x previous output present/absent; three generators per run (one implements GenerateAliasType). The real Execute runs in the worker; the oracle compares sha256+mode snapshots of every path under the module before and after: " +
		"changed/created/deleted paths must lie in {<pkgdir>/<base>.* of executed packages} + {<modroot>/gengo.sum iff All}; a cache-skipped or unselected package is entirely unchanged; in an executed package each generator's file exists afterwards iff it rendered something (and then carries that generator's marker), except ErrIgnore+nothing => bytes exactly as before; stale <base>.*.go members are gone. " +
		"Thorough tier additionally runs configurations in a child process under strace -f and requires that no open-for-write / creat / unlink / rename / truncate / mkdir under the module root falls outside the allow-set (catches write-then-restore). " +
		"Non-trivial = a configuration with at least one previous output or stale file and at least one non-rendering behaviour; distinct by hash of (base, All, root, behaviour matrix, previous-output matrix)."
}
func (*prop) Assumptions() []string {
	return []string{
		"non-Go files named <base>.<something> (e.g. <base>.notes.txt) may be kept or removed: the statement allows touching them and does not require either",
		"only mutations by the gengo process and its go list children under the module root are judged; GOFLAGS is cleared so that go list does not rewrite go.mod",
		"which packages are executed is taken from the hook events pkg:start / pkg:cached (the cache decision itself is C08)",
	}
}
func (*prop) MinDistinct(tier string) int64 {
	if tier == "thorough" {
		return 500
	}
	return 15
}

type params struct {
	N      int  `json:"n"`
	Strace bool `json:"strace"`
}

func (*prop) Cases(seed int64, tier string) []core.Case {
	nc, n := 16, 10
	var cs []core.Case
	if tier == "thorough" {
		nc, n = 64, 64
		for i := 0; i < 32; i++ {
			cs = append(cs, core.MkCase("strace", params{N: 8, Strace: true}))
		}
	}
	for i := 0; i < nc; i++ {
		cs = append(cs, core.MkCase("configs", params{N: n}))
	}
	cs = append(cs, core.MkCase("regressions", params{N: 1}))
	return cs
}

var modes = []string{"render", "nothing", "skip", "ignore-nothing", "ignore-something", "alias-only", "alias-ignore-nothing", "render", "defer-only", "ignore-then-skip", "skip-then-ignore", "ignore-then-nil"}
var bases = []string{"zz_generated", "zz", "gen.out", "zz_Generated", "GEN"}

const mod = "example.com/c07"

type config struct {
	Base    string            `json:"base"`
	All     bool              `json:"all"`
	Root    bool              `json:"root"`
	Gens    []specgen.GenSpec `json:"gens"`
	Prev    map[string]bool   `json:"prev"` // "<pkgdir>|<gen>" -> previous output present
	Stale   bool              `json:"stale"`
	Sum     string            `json:"sum"` // none | garbage | empty
	Entries []string          `json:"entries"`
	Multi   bool              `json:"multi"` // nested + sibling modules imported through replace
	// Cwd: the directory (relative to the module root) the run is started from - "" the root, "a" the first
	// entrypoint's own directory (as go generate does); the entrypoints are then given relative to it
	Cwd string `json:"cwd,omitempty"`
	// Force: regenerate even what the cache would skip - it widens nothing: which packages are PROCESSED is decided by
	// the entrypoints and All alone (seeded change C07-n: Force made every loaded local package count as selected)
	Force bool `json:"force,omitempty"`
}

func genConfig(r *rand.Rand) config {
	cfg := config{Base: bases[r.Intn(len(bases))], All: r.Intn(3) != 0, Root: r.Intn(2) == 0, Prev: map[string]bool{}, Stale: r.Intn(3) != 0, Sum: []string{"none", "garbage", "empty"}[r.Intn(3)]}
	pk := pkgs(cfg.Root)
	for gi, gn := range []string{"g1", "gTwo", "g3"} {
		gs := specgen.GenSpec{Name: gn, Alias: gi == 0, Pkg: map[string]specgen.Behav{}, Def: specgen.Behav{Mode: "render", Salt: "s"}}
		for _, p := range pk {
			m := modes[r.Intn(len(modes))]
			gs.Pkg[p.Path(mod)] = specgen.Behav{Mode: m, Salt: fmt.Sprintf("s%d", r.Intn(100)), Defers: r.Intn(2)}
			if r.Intn(2) == 0 {
				cfg.Prev[p.Dir+"|"+gn] = true
			}
		}
		cfg.Gens = append(cfg.Gens, gs)
	}
	cfg.Multi = r.Intn(3) == 0
	if r.Intn(3) == 0 {
		cfg.Cwd = "a"
	}
	cfg.Entries = []string{"./a"}
	if r.Intn(4) == 0 {
		cfg.Entries = []string{"./a", "./b/nested"}
	}
	switch r.Intn(8) {
	case 0:
		// a wildcard pattern: every package of the main module is a direct entrypoint (testdata, _sibling and the nested
		// module are not matched by it)
		cfg.Entries = []string{"./..."}
	case 1:
		// import paths instead of directories
		cfg.Entries = []string{mod + "/a", mod + "/c"}
	}
	cfg.Force = r.Intn(3) == 0
	return cfg
}

func pkgs(root bool) []layout.Pkg {
	tags := []string{"+gengo:g1", "+gengo:gTwo", "+gengo:g3", "+gengo:gone"}
	ps := []layout.Pkg{
		{Dir: "a", Name: "a", Imports: []string{mod + "/b"}, Types: []string{"A1", "A2"}, Aliases: []string{"AA"}, Tags: tags},
		{Dir: "b", Name: "b", Imports: []string{mod + "/b/nested"}, Types: []string{"B1"}, Tags: tags},
		{Dir: "b/nested", Name: "nested", Types: []string{"N1", "N2", "N3"}, Aliases: []string{"NA"}, Tags: tags},
		{Dir: "c", Name: "c", Types: []string{"C1"}, Tags: tags},
		// packages without a single defined type (d: nothing; e: only an alias): every generator renders nothing there
		// (the alias generator aside), so their stale files must go like everywhere else
		{Dir: "d", Name: "d", Typeless: true, Tags: tags},
		{Dir: "e", Name: "e", Typeless: true, Aliases: []string{"EA"}, Tags: tags},
	}
	// a package whose directory repeats the module path (a vendored copy of the module itself, say): its source
	// directory is <root>/third/<module path>/v, the module path occurring twice in its import path
	ps = append(ps, layout.Pkg{Dir: "third/" + mod + "/v", Name: "v", Types: []string{"V1"}, Aliases: []string{"VA"}, Tags: tags})
	ps[0].Imports = append(ps[0].Imports, mod+"/third/"+mod+"/v")
	ps[0].ValueImports = []string{mod + "/d", mod + "/e"}
	if root {
		ps[0].Imports = append(ps[0].Imports, mod)
		ps = append(ps, layout.Pkg{Dir: "", Name: "rootpkg", Types: []string{"R1"}, Aliases: []string{"RA"}, Tags: tags})
	}
	return ps
}

func prevContent(pkgName, gen string) string {
	return "package " + pkgName + "\n\n// previous output of " + gen + "\n"
}

// build writes the module and returns the package list.
func build(m *fixture.Module, cfg config) []layout.Pkg {
	ps := pkgs(cfg.Root)
	if cfg.Multi {
		ps[0].Imports = append(ps[0].Imports, mod+"/tools", mod+"-contrib")
	}
	for _, p := range ps {
		p.Write(m)
		d := p.Dir
		m.MustWrite(filepath.Join(d, cfg.Base+"X.go"), "package "+p.Name+"\n\n// look-alike: user file\n")
		m.MustWrite(filepath.Join(d, cfg.Base), "look-alike without extension\n")
		m.MustWrite(filepath.Join(d, cfg.Base+"_test.go"), "package "+p.Name+"\n")
		m.MustWrite(filepath.Join(d, cfg.Base+".notes.txt"), "notes\n")
		if cfg.Stale {
			m.MustWrite(filepath.Join(d, cfg.Base+".gTwo.go.tmp"), strings.Repeat("left-over of an interrupted run\n", 300))
		}
		m.MustWrite(filepath.Join(d, "data.json"), "{}\n")
		// user files named like temp / backup / lock files of an output, OUTSIDE the <base>. namespace
		for _, gn := range []string{"g1", "gTwo", "g3"} {
			for _, pat := range []string{".%s.%s.go.tmp", ".%s.%s.go", "_%s.%s.go.tmp", "#%s.%s.go#", ".#%s.%s.go", "~%s.%s.go~", "tmp-%s.%s.go.bak"} {
				m.MustWrite(filepath.Join(d, fmt.Sprintf(pat, cfg.Base, gn)), "user data, not gengo's\n")
			}
		}
		for _, gn := range []string{"g1", "gTwo", "g3"} {
			if cfg.Prev[p.Dir+"|"+gn] {
				m.MustWrite(filepath.Join(d, cfg.Base+"."+gn+".go"), prevContent(p.Name, gn))
			}
		}
		if cfg.Stale {
			// (in every other package the stale output opens with a //line directive, as files written by goyacc or a
			// template engine do: its declarations are REPORTED under another name, the file on disk is what counts)
			lineDir := ""
			if len(d)%2 == 1 {
				lineDir = "//line old.y:1\n"
			}
			m.MustWrite(filepath.Join(d, cfg.Base+".old.go"), lineDir+"package "+p.Name+"\n\n// stale output of a generator that is no longer run\n")
			m.MustWrite(filepath.Join(d, cfg.Base+".gone.go"), prevContent(p.Name, "gone"))
		}
	}
	if cfg.Multi {
		// a nested module inside the tree and a look-alike sibling module whose path merely starts with the main
		// module's path; both are imported by package a (through replace directives) and must never be touched
		m.MustWrite("tools/go.mod", "module "+mod+"/tools\n\ngo 1.24\n")
		m.MustWrite("tools/tools.go", "// +gengo:g1\n// +gengo:gTwo\n// +gengo:g3\npackage tools\n\ntype Anchor struct{ N int }\n\ntype Tool struct{}\n")
		m.MustWrite("tools/"+cfg.Base+".g1.go", "package tools\n\n// output of another module's own run\n")
		m.MustWrite("_sibling/contrib/go.mod", "module "+mod+"-contrib\n\ngo 1.24\n")
		m.MustWrite("_sibling/contrib/contrib.go", "// +gengo:g1\n// +gengo:gTwo\n// +gengo:g3\npackage contrib\n\ntype Anchor struct{ N int }\n\ntype Extra struct{}\n")
	}
	// a user file of package a whose //line directive claims the name of an output file of package c (which a run on
	// ./a does not select): c's file is none of a's business
	m.MustWrite("a/legacy.go", "//line ../c/"+cfg.Base+".g1.go:1\npackage a\n\ntype Legacy struct{ N int }\n")
	m.MustWrite("README.md", "# scratch\n")
	m.MustWrite("a/testdata/x/x.go", "package x\n\ntype X struct{}\n")
	m.MustWrite("a/testdata/x/"+cfg.Base+".g1.go", "package x\n")
	switch cfg.Sum {
	case "garbage":
		m.MustWrite("gengo.sum", "this is not a sum file\n\x00\x01 garbage line with many fields a b c\n")
	case "empty":
		m.MustWrite("gengo.sum", "")
	}
	return ps
}

// processedPkgs: the packages the run is expected to process, derived from the configuration alone (not from hooks in
// the code under test): the entrypoints themselves, plus - with All - every package of the module in their import
// closure (nothing is ever cached here: the configurations start without a usable gengo.sum).
func processedPkgs(cfg config, ps []layout.Pkg) map[string]bool {
	byPath := map[string]layout.Pkg{}
	for _, p := range ps {
		byPath[p.Path(mod)] = p
	}
	out := map[string]bool{}
	var visit func(path string)
	visit = func(path string) {
		p, ok := byPath[path]
		if !ok || out[path] {
			return
		}
		out[path] = true
		if !cfg.All {
			return
		}
		for _, ip := range append(append([]string{}, p.Imports...), p.ValueImports...) {
			visit(ip)
		}
	}
	for _, e := range cfg.Entries {
		if e == "./..." {
			for _, p := range ps {
				visit(p.Path(mod))
			}
			continue
		}
		if strings.HasPrefix(e, mod) {
			visit(e)
			continue
		}
		d := strings.TrimPrefix(e, "./")
		if d == "." || d == "" {
			visit(mod)
		} else {
			visit(mod + "/" + d)
		}
	}
	return out
}

func executedPkgs(res specgen.Result) map[string]bool {
	ex := map[string]bool{}
	for _, e := range res.Events {
		if e.Kind == "hook" && e.Name == "pkg:start" {
			ex[e.Detail] = true
		}
	}
	return ex
}

// judge compares the before/after snapshots with the rules; returns failures as (oracle, key, message).
func judge(cfg config, ps []layout.Pkg, before, after map[string]fixture.Entry, m *fixture.Module, run specgen.Result) [][3]string {
	var fails [][3]string
	add := func(oracle, key, format string, a ...any) {
		fails = append(fails, [3]string{oracle, key, fmt.Sprintf(format, a...)})
	}
	ex := processedPkgs(cfg, ps)
	created, changed, deleted := fixture.Diff(before, after)
	touched := map[string]string{}
	for _, p := range created {
		touched[p] = "created"
	}
	for _, p := range changed {
		touched[p] = "changed"
	}
	for _, p := range deleted {
		touched[p] = "deleted"
	}
	dirOf := map[string]layout.Pkg{}
	for _, p := range ps {
		d := p.Dir
		if d == "" {
			d = "."
		}
		dirOf[d] = p
	}
	for path, what := range touched {
		if path == "gengo.sum" {
			if !cfg.All {
				add("outside-allow-set", "gengo.sum without All", "gengo.sum was %s although All is off", what)
			}
			continue
		}
		d := filepath.Dir(path)
		base := filepath.Base(path)
		p, isPkgDir := dirOf[d]
		if !isPkgDir {
			add("outside-allow-set", "non-package dir", "%s was %s: it is not inside a package of the run", path, what)
			continue
		}
		if !ex[p.Path(mod)] {
			add("unexecuted-package-touched", fmt.Sprintf("all=%v", cfg.All), "%s was %s but package %s was not executed (unselected or cached)", path, what, p.Path(mod))
			continue
		}
		if !strings.HasPrefix(base, cfg.Base+".") {
			add("outside-allow-set", "not <base>.*: "+strings.Replace(base, cfg.Base, "<base>", 1), "%s was %s: its name does not start with %q", path, what, cfg.Base+".")
		}
	}
	// per executed package / generator rules
	for _, p := range ps {
		if !ex[p.Path(mod)] {
			continue
		}
		for _, gs := range cfg.Gens {
			bh := gs.For(p.Path(mod))
			f := filepath.Join(p.Dir, cfg.Base+"."+gs.Name+".go")
			_, existed := before[f]
			_, exists := after[f]
			renders := bh.RendersSomething(!p.Typeless, len(p.Aliases) > 0, gs.Alias)
			ignores := bh.IgnoresWithoutOutput(!p.Typeless, len(p.Aliases) > 0, gs.Alias)
			key := fmt.Sprintf("%s prev=%v alias-gen=%v", bh.Mode, existed, gs.Alias)
			if p.Typeless {
				key += fmt.Sprintf(" typeless aliases=%d", len(p.Aliases))
			}
			switch {
			case renders:
				if !exists {
					add("file-iff-rendered", key, "%s: generator %s rendered something (%s) but its file does not exist afterwards", f, gs.Name, bh.Mode)
				} else if c, _ := m.Read(f); !strings.Contains(c, "// "+gs.Name+" "+bh.Salt+" saw") {
					add("file-iff-rendered", key, "%s exists but does not carry what generator %s rendered in this run", f, gs.Name)
				}
			case ignores:
				if existed != exists || (existed && before[f] != after[f]) {
					add("ignore-keeps-previous", key, "%s: generator %s signalled ErrIgnore and rendered nothing (%s); previous file existed=%v, afterwards exists=%v, identical=%v", f, gs.Name, bh.Mode, existed, exists, before[f] == after[f])
				}
			default:
				if exists {
					add("file-iff-rendered", key, "%s: generator %s rendered nothing (%s) but a file exists afterwards (previous existed=%v)", f, gs.Name, bh.Mode, existed)
				}
			}
		}
		if cfg.Stale {
			for _, st := range []string{cfg.Base + ".old.go", cfg.Base + ".gone.go"} {
				if _, ok := after[filepath.Join(p.Dir, st)]; ok {
					add("stale-removed", st[len(cfg.Base):], "%s: stale output in executed package %s still exists", filepath.Join(p.Dir, st), p.Path(mod))
				}
			}
		}
	}
	return fails
}

func (cfg config) fingerprint() string {
	var b strings.Builder
	fmt.Fprintf(&b, "%s|%v|%v|%v|%s|%s|%v|", cfg.Base, cfg.All, cfg.Root, cfg.Stale, cfg.Sum, cfg.Cwd, cfg.Force)
	for _, g := range cfg.Gens {
		var ks []string
		for k, v := range g.Pkg {
			ks = append(ks, k+"="+v.Mode)
		}
		sort.Strings(ks)
		b.WriteString(strings.Join(ks, ","))
	}
	var pk []string
	for k := range cfg.Prev {
		pk = append(pk, k)
	}
	sort.Strings(pk)
	b.WriteString(strings.Join(pk, ","))
	return b.String()
}

func (cfg config) nonTrivial() bool {
	nr := false
	for _, g := range cfg.Gens {
		for _, v := range g.Pkg {
			if v.Mode != "render" {
				nr = true
			}
		}
	}
	return nr && (len(cfg.Prev) > 0 || cfg.Stale)
}

var straceMut = regexp.MustCompile(`^(\d+\s+)?(open|openat|creat|unlink|unlinkat|rename|renameat|renameat2|truncate|ftruncate|mkdir|mkdirat|rmdir|link|linkat|symlink|symlinkat|chmod|fchmodat)\((.*)`)
var quoted = regexp.MustCompile(`"((?:[^"\\]|\\.)*)"`)

// straceViolations scans an strace log for mutating file-system calls under root outside the allow-set.
func straceViolations(log, root string, allowed func(rel string) bool) (violations []string, mutating int) {
	for _, line := range strings.Split(log, "\n") {
		m := straceMut.FindStringSubmatch(line)
		if m == nil {
			continue
		}
		call, rest := m[2], m[3]
		if strings.Contains(line, "= -1 ") {
			continue // failed call
		}
		if call == "open" || call == "openat" {
			if !strings.Contains(rest, "O_WRONLY") && !strings.Contains(rest, "O_RDWR") && !strings.Contains(rest, "O_CREAT") && !strings.Contains(rest, "O_TRUNC") {
				continue
			}
		}
		for _, q := range quoted.FindAllStringSubmatch(rest, -1) {
			p := q[1]
			if !strings.HasPrefix(p, root+"/") {
				continue
			}
			rel := strings.TrimPrefix(p, root+"/")
			mutating++
			if !allowed(rel) {
				violations = append(violations, fmt.Sprintf("%s(%s)", call, rel))
			}
		}
	}
	return
}

func (p *prop) runConfig(c core.Case, w *core.Worker, res *core.Result, cfg config, idx int, strace bool) {
	extra := ""
	if cfg.Multi {
		extra = fmt.Sprintf("\nrequire (\n\t%s/tools v0.0.0\n\t%s-contrib v0.0.0\n)\n\nreplace (\n\t%s/tools => ./tools\n\t%s-contrib => ./_sibling/contrib\n)\n", mod, mod, mod, mod)
	}
	m, err := fixture.New(w.Scratch, fmt.Sprintf("c07-%d-%d", c.ID, idx), mod, "1.24", extra)
	if err != nil {
		res.Inconclusive = append(res.Inconclusive, err.Error())
		return
	}
	defer m.Remove()
	ps := build(m, cfg)
	before := m.Snapshot()
	args := specgen.Args{Entrypoint: cfg.Entries, OutputFileBaseName: cfg.Base, All: cfg.All, Force: cfg.Force}
	runDir := m.Root
	if cfg.Cwd != "" {
		runDir = filepath.Join(m.Root, cfg.Cwd)
		var rel []string
		for _, e := range cfg.Entries {
			if strings.HasPrefix(e, mod) {
				rel = append(rel, e) // an import path means the same from every directory of the module
				continue
			}
			if e == "./..." {
				rel = append(rel, "../...")
				continue
			}
			r, err := filepath.Rel(cfg.Cwd, strings.TrimPrefix(e, "./"))
			if err != nil {
				r = e
			}
			if !strings.HasPrefix(r, ".") {
				r = "./" + r
			}
			rel = append(rel, r)
		}
		args.Entrypoint = rel
	}
	var run specgen.Result
	straceLog := ""
	if strace {
		logFile := filepath.Join(w.Scratch, fmt.Sprintf("strace-%d-%d.log", c.ID, idx))
		run = specgen.RunChild(w.Scratch, specgen.RunSpec{Dir: runDir, Args: args, Gens: cfg.Gens}, "strace", "-f", "-qq", "-o", logFile, "-e", "trace=open,openat,creat,unlink,unlinkat,rename,renameat,renameat2,truncate,ftruncate,mkdir,mkdirat,rmdir,link,linkat,symlink,symlinkat,chmod,fchmodat")
		b, _ := os.ReadFile(logFile)
		straceLog = string(b)
		_ = os.Remove(logFile)
		if run.Died {
			res.Inconclusive = append(res.Inconclusive, "strace child produced no result: "+run.ExitStatus+" "+clip(run.Stderr, 500))
			return
		}
	} else {
		// inotify on every directory of the tree for the duration of the run: creations, deletions, renames and
		// modifications of directory entries are recorded as they happen, transient files included
		watcher, werr := fixture.Watch(m.Root)
		run = specgen.RunInProcess(runDir, args, cfg.Gens)
		if werr == nil {
			evs, overflow := watcher.Stop()
			if overflow {
				res.Inc("inotify_queue_overflows")
			} else {
				ex := processedPkgs(cfg, ps)
				okDir := map[string]bool{}
				for _, pk := range ps {
					if ex[pk.Path(mod)] {
						d := pk.Dir
						if d == "" {
							d = "."
						}
						okDir[d] = true
					}
				}
				seen := map[string]bool{}
				for _, ev := range evs {
					res.Inc("inotify_events_observed")
					if ev.Rel == "gengo.sum" && cfg.All {
						continue
					}
					if okDir[filepath.Dir(ev.Rel)] && strings.HasPrefix(filepath.Base(ev.Rel), cfg.Base+".") {
						continue
					}
					key := strings.Replace(filepath.Base(ev.Rel), cfg.Base, "<base>", 1)
					if !seen[ev.Rel] {
						seen[ev.Rel] = true
						res.Fail("outside-allow-set", "during the run (inotify): "+key, fmt.Sprintf("%s: %s while the run was in progress - not a <base>.* file of a processed package (transient files count: the statement says creates, rewrites or deletes)\n(config: base=%s all=%v root=%v entries=%v)", ev.Rel, ev.What(), cfg.Base, cfg.All, cfg.Root, cfg.Entries), cfg)
					}
				}
			}
		} else {
			res.Inc("inotify_unavailable")
		}
	}
	res.Evals++
	if cfg.nonTrivial() {
		res.NonTrivial(cfg.fingerprint())
	}
	if run.Failed {
		res.Fail("execute", "execute-error", fmt.Sprintf("Execute failed on a well-formed configuration: %s", clip(run.Err+run.Panic, 1500)), cfg)
		return
	}
	res.Inc("gengo_runs")
	switch {
	case cfg.Entries[0] == "./...":
		res.Inc("runs_with_wildcard_entrypoint")
	case strings.HasPrefix(cfg.Entries[0], mod):
		res.Inc("runs_with_import_path_entrypoints")
	}
	after := m.Snapshot()
	fails := judge(cfg, ps, before, after, m, run)
	for _, f := range fails {
		res.Fail(f[0], f[1], f[2]+fmt.Sprintf("\n(config: base=%s all=%v force=%v root=%v stale=%v sum=%s entries=%v cwd=%q)", cfg.Base, cfg.All, cfg.Force, cfg.Root, cfg.Stale, cfg.Sum, cfg.Entries, cfg.Cwd), cfg)
	}
	res.Count("paths_snapshotted", int64(len(before)))
	cr, ch, de := fixture.Diff(before, after)
	res.Count("paths_created", int64(len(cr)))
	res.Count("paths_changed", int64(len(ch)))
	res.Count("paths_deleted", int64(len(de)))
	res.Count("packages_executed", int64(len(executedPkgs(run))))
	if strace {
		ex := processedPkgs(cfg, ps)
		dirs := map[string]bool{}
		for _, pk := range ps {
			if ex[pk.Path(mod)] {
				d := pk.Dir
				if d == "" {
					d = "."
				}
				dirs[d] = true
			}
		}
		allowed := func(rel string) bool {
			if rel == "gengo.sum" {
				return cfg.All
			}
			return dirs[filepath.Dir(rel)] && strings.HasPrefix(filepath.Base(rel), cfg.Base+".")
		}
		v, n := straceViolations(straceLog, m.Root, allowed)
		res.Count("strace_mutating_syscalls_under_module", int64(n))
		res.Inc("strace_runs")
		if n == 0 && len(cr)+len(ch)+len(de) > 0 {
			res.Inconclusive = append(res.Inconclusive, "strace log shows no mutating call although files changed: the log filter is broken")
		}
		for _, s := range v {
			res.Fail("strace-outside-allow-set", strings.Replace(s, cfg.Base, "<base>", 1), "the gengo process (or a child) issued "+s+" under the module root, outside its own output files", cfg)
		}
	}
	if idx == 0 {
		res.Sample(map[string]any{"base": cfg.Base, "all": cfg.All, "root_package": cfg.Root, "stale": cfg.Stale, "sum": cfg.Sum, "g1_modes": cfg.Gens[0].Pkg, "created": cr, "changed": ch, "deleted": de}, 1)
	}
}

func clip(s string, n int) string {
	if len(s) <= n {
		return s
	}
	return s[:n] + "…"
}

func (p *prop) Run(c core.Case, w *core.Worker) core.Result {
	res := core.Result{CaseID: c.ID}
	var pa params
	c.Decode(&pa)
	r := rand.New(rand.NewSource(c.Seed))
	switch c.Kind {
	case "configs":
		for i := 0; i < pa.N; i++ {
			p.runConfig(c, w, &res, genConfig(r), i, false)
		}
	case "strace":
		if _, err := exec.LookPath("strace"); err != nil {
			res.Inconclusive = append(res.Inconclusive, "strace not found")
			return res
		}
		for i := 0; i < pa.N; i++ {
			p.runConfig(c, w, &res, genConfig(r), i, true)
		}
	case "regressions":
		// alias generator that signals ErrIgnore and renders nothing must keep its previous file (also when the
		// named-type path rendered nothing)
		for _, all := range []bool{true, false} {
			cfg := genConfig(r)
			cfg.All, cfg.Base, cfg.Stale = all, "zz_generated", true
			for gi := range cfg.Gens {
				for k := range cfg.Gens[gi].Pkg {
					cfg.Gens[gi].Pkg[k] = specgen.Behav{Mode: []string{"alias-ignore-nothing", "ignore-nothing", "skip"}[gi], Salt: "r"}
				}
			}
			for _, pk := range pkgs(cfg.Root) {
				for _, gn := range []string{"g1", "gTwo", "g3"} {
					cfg.Prev[pk.Dir+"|"+gn] = true
				}
			}
			p.runConfig(c, w, &res, cfg, 100, false)
		}
	}
	return res
}
