// Package c10: value literals evaluate back to the value they were rendered from.
// The judge is a compiled and executed check program: the rendered literals are compiled (real Go
// compiler) into a test binary of the fixture package, executed, and the values they evaluate to are
// dumped canonically and compared with the dump of the original values.
package c10

import (
	"bufio"
	"bytes"
	"encoding/json"
	"fmt"
	"go/ast"
	"go/parser"
	"os"
	"os/exec"
	"path/filepath"
	"reflect"
	"regexp"
	"sort"
	"strconv"
	"strings"
	"time"

	"github.com/octohelm/gengo/pkg/gengo"
	"github.com/octohelm/gengo/pkg/gengo/snippet"
	"github.com/octohelm/gengo/pkg/namer"

	"verif/dump"
	"verif/internal/core"
	"verif/valgen"
)

func init() { core.Register(&prop{}) }

type prop struct{}

func (*prop) ID() string    { return "C10" }
func (*prop) Level() string { return "exploration" }
func (*prop) Rule() string {
	return fmt.Sprintf("seeded values over a catalogue of %d root types (all bool/int/uint/float kinds incl. uintptr, runes, strings, named versions from two fixture packages and std, single-level pointers to scalars / named scalars / strings / structs (zero and non-zero) / slices / maps, slices, arrays, maps with int/float/string/rune/named/array keys, structs nested <= 4 deep with exported fields, zero bytes.Buffer) ", len(valgen.Roots)) +
		"with edge values (extreme ints, quotable and unquotable runes, float32/64 max / smallest subnormal / -0 / 1e21 / 0.1, strings with quotes, newlines, backquotes, NUL, invalid UTF-8, nil and empty containers, pointers to zero values). " +
		"Each value is rendered through snippet.Value and through Sprintf(%v) into a writer bound to (a) a foreign package and (b) the fixture package itself. Oracles: the text parses as an expression; the batch compiles (go test -c, all compiler errors attributed to cases by line) together with the imports the tracker registered; " +
		"the compiled program evaluates every literal and its canonical dump (type with full package path + value, nil/empty containers identified, -0 == 0) equals the dump of the original; rendering twice gives identical text (maps with >= 2 keys counted) and the same text in another worker process (digest). " +
		"Non-trivial = composite, pointer, named or edge value (anything but a zero scalar); distinct by hash of (root type, canonical dump)."
}
func (*prop) Assumptions() []string {
	return []string{
		"scalars are rendered as untyped constants by design: for them assignability to the original type is required (`var got T = <literal>`), composites and non-nil pointers are declared with := so their type comes from the literal itself",
		"interfaces, funcs, chans, complex numbers, pointer-to-pointer, NaN/Inf and unexported fields are outside the stated domain and not generated",
		"trusted: the Go compiler, reflect, and the 100-line canonical dumper",
	}
}
func (*prop) MinDistinct(tier string) int64 {
	if tier == "thorough" {
		return 5000
	}
	return 200
}

type batch struct {
	Lo, Hi int
	Mode   string // foreign | own
	Dup    bool
}

func (*prop) Cases(seed int64, tier string) []core.Case {
	total, per := 2400, 150
	if tier == "thorough" {
		total, per = 60000, 400
	}
	var cs []core.Case
	for lo := 0; lo < total; lo += per {
		mode := "foreign"
		if (lo/per)%2 == 1 {
			mode = "own"
		}
		cs = append(cs, core.MkCase("batch", batch{lo, lo + per, mode, false}))
	}
	// first batch again in both modes (other worker process): text digest must agree; own-mode covers the same values unqualified
	cs = append(cs, core.MkCase("batch", batch{0, per, "foreign", true}))
	cs = append(cs, core.MkCase("batch", batch{0, per, "own", false}))
	return cs
}

const vtPath = "verif/fixtures/vt"

// knownType: a type name exported by each package the tracker may import (keeps imports used when a case is dropped).
var knownType = map[string]string{"verif/fixtures/vt": "Leaf", "verif/fixtures/vu": "Item", "time": "Duration", "bytes": "Buffer", "verif/fixtures/apps/v1": "Spec", "verif/fixtures/core/v1": "Spec"}

// typeText prints t as Go source using the harness's own import aliases (h_*); own => vt types unqualified.
func typeText(t reflect.Type, own bool) string {
	if t.PkgPath() != "" {
		switch t.PkgPath() {
		case vtPath:
			if own {
				return t.Name()
			}
			return "h_vt." + t.Name()
		case "verif/fixtures/vu":
			return "h_vu." + t.Name()
		case "time":
			return "h_time." + t.Name()
		case "bytes":
			return "h_bytes." + t.Name()
		case "verif/fixtures/apps/v1":
			return "h_appsv1." + t.Name()
		case "verif/fixtures/core/v1":
			return "h_corev1." + t.Name()
		}
		panic("unknown package " + t.PkgPath())
	}
	switch t.Kind() {
	case reflect.Struct:
		if t.NumField() == 0 {
			return "struct{}"
		}
		panic("anonymous struct " + t.String())
	case reflect.Ptr:
		return "*" + typeText(t.Elem(), own)
	case reflect.Slice:
		return "[]" + typeText(t.Elem(), own)
	case reflect.Array:
		return fmt.Sprintf("[%d]%s", t.Len(), typeText(t.Elem(), own))
	case reflect.Map:
		return "map[" + typeText(t.Key(), own) + "]" + typeText(t.Elem(), own)
	}
	return t.String()
}

func nonTrivial(v reflect.Value) bool {
	switch v.Kind() {
	case reflect.Ptr:
		return !v.IsNil()
	case reflect.Struct, reflect.Map, reflect.Slice, reflect.Array:
		return true
	}
	return !v.IsZero() || v.Type().PkgPath() != ""
}

type caseInfo struct {
	I        int
	Root     string
	Rendered string
	Via      string
	Decl     string // "short" or "typed"
	OrigDump string
	Start    int // line range in the assembled file
	End      int
	Dropped  string
}

var errLine = regexp.MustCompile(`(?:zz_c10_[a-z0-9_]+_test|check_test)\.go:(\d+):(\d+): (.*)`)

func (p *prop) Run(c core.Case, w *core.Worker) core.Result {
	res := core.Result{CaseID: c.ID}
	var b batch
	c.Decode(&b)
	own := b.Mode == "own"
	seed := c.Seed
	// the value stream must be the same for every batch of a run and for the duplicate batch: derive from tier-level seed only
	seed = valueSeed(c)

	target := "verif/fixtures/vt_test"
	if own {
		target = vtPath
	}
	var buf bytes.Buffer
	tracker := namer.NewDefaultImportTracker()
	sw := gengo.NewSnippetWriter(&buf, namer.NameSystems{"raw": namer.NewRawNamer(target, tracker)})

	var infos []*caseInfo
	textDigest := bytes.Buffer{}
	for i := b.Lo; i < b.Hi; i++ {
		root, v := valgen.Value(seed, i)
		info := &caseInfo{I: i, Root: valgen.RootName(root, v), OrigDump: dump.DumpValue(v)}
		res.Evals++
		if !b.Dup && nonTrivial(v) {
			res.NonTrivial(b.Mode + "|" + info.OrigDump)
		}
		res.Inc("root_kind_" + v.Kind().String())
		// a nil pointer at top level cannot go through Value(any) as a typed value other than via interface: keep it (domain: "nil")
		arg := v.Interface()
		info.Via = "Value"
		var sn snippet.Snippet = snippet.Value(arg)
		if i%3 == 1 {
			info.Via = "Sprintf"
			sn = snippet.Sprintf("%v", arg)
		}
		render := func() (string, bool, any) {
			buf.Reset()
			pk, pv, _ := core.Guard(func() { sw.Render(sn) })
			return buf.String(), pk, pv
		}
		text, pk, pv := render()
		if pk {
			res.Fail("render-panic", info.Root, fmt.Sprintf("rendering value %d (%s = %s) via %s panicked: %v", i, info.Root, clip(info.OrigDump, 300), info.Via, pv), map[string]any{"i": i, "seed": seed})
			continue
		}
		text2, _, _ := render()
		if text != text2 {
			res.Fail("text-deterministic", info.Root, fmt.Sprintf("value %d (%s) rendered two different texts:\n%s\n---\n%s", i, info.Root, clip(text, 600), clip(text2, 600)), map[string]any{"i": i, "seed": seed})
			continue
		}
		if countMapsWithTwoKeys(v) > 0 {
			res.Inc("renders_with_multi_key_maps_compared_twice")
		}
		textDigest.WriteString(text)
		textDigest.WriteByte(0)
		info.Rendered = text
		if _, err := parser.ParseExpr(text); err != nil {
			res.Fail("syntax", info.Root+" "+shapeKey(v), fmt.Sprintf("value %d (%s = %s) rendered %q which is not a Go expression: %v", i, info.Root, clip(info.OrigDump, 300), clip(text, 400), err), map[string]any{"i": i, "seed": seed})
			continue
		}
		res.Inc("literals_parsed")
		// the literal ALONE in a file with exactly the imports its own rendering registers (a fresh tracker): every
		// registered import must be used by the text, every qualifier must be bound - otherwise that file would not
		// compile ("imported and not used" / undefined). The batch program below shares one import block between many
		// literals and cannot see this.
		{
			var b1 bytes.Buffer
			tr1 := namer.NewDefaultImportTracker()
			sw1 := gengo.NewSnippetWriter(&b1, namer.NameSystems{"raw": namer.NewRawNamer(target, tr1)})
			if pk1, _, _ := core.Guard(func() { sw1.Render(sn) }); !pk1 {
				if x, err := parser.ParseExpr(b1.String()); err == nil {
					used := map[string]bool{}
					ast.Inspect(x, func(n ast.Node) bool {
						if se, ok := n.(*ast.SelectorExpr); ok {
							if id, ok := se.X.(*ast.Ident); ok {
								used[id.Name] = true
							}
						}
						return true
					})
					for path, name := range tr1.Imports() {
						if path == target {
							continue
						}
						if !used[name] {
							res.Fail("compile", "alone: unused import "+info.Root, fmt.Sprintf("value %d (%s = %s) rendered alone registers import %s %q which its text never uses - a file holding this literal and the imports it registered does not compile:\n%s", i, info.Root, clip(info.OrigDump, 300), name, path, clip(b1.String(), 500)), map[string]any{"i": i, "seed": seed})
						}
					}
					bound := map[string]bool{}
					for _, name := range tr1.Imports() {
						bound[name] = true
					}
					for q := range used {
						if !bound[q] {
							res.Fail("compile", "alone: unbound qualifier "+info.Root, fmt.Sprintf("value %d (%s) rendered alone uses qualifier %q which none of the imports it registered binds (%v):\n%s", i, info.Root, q, tr1.Imports(), clip(b1.String(), 500)), map[string]any{"i": i, "seed": seed})
						}
					}
					res.Inc("literals_checked_alone_against_their_own_imports")
				}
			}
		}
		info.Decl = "short"
		switch v.Kind() {
		case reflect.Struct, reflect.Map, reflect.Slice, reflect.Array:
		case reflect.Ptr:
			if v.IsNil() {
				info.Decl = "typed"
			}
		default:
			info.Decl = "typed"
		}
		if info.Decl == "typed" {
			info.Rendered = text
		}
		infos = append(infos, info)
	}
	res.Digest(fmt.Sprintf("text-%s-%d-%d", b.Mode, b.Lo, b.Hi), fmt.Sprintf("%x", core.Hash64(textDigest.String())))

	// assemble, compile (dropping cases the compiler rejects), run
	id := fmt.Sprintf("%d_%d_%s", os.Getpid(), c.ID, b.Mode)
	virt := filepath.Join(w.Verif, "harness", "fixtures", "vt", "zz_c10_"+id+"_test.go")
	dir, err := os.MkdirTemp(w.Scratch, "c10-")
	if err != nil {
		res.Inconclusive = append(res.Inconclusive, err.Error())
		return res
	}
	defer os.RemoveAll(dir)
	realFile := filepath.Join(dir, "check_test.go")
	overlay := filepath.Join(dir, "overlay.json")
	ob, _ := json.Marshal(map[string]any{"Replace": map[string]string{virt: realFile}})
	_ = os.WriteFile(overlay, ob, 0o644)
	bin := filepath.Join(dir, "c10.test")

	live := infos
	compiled := false
	for attempt := 0; attempt < 4 && len(live) > 0; attempt++ {
		src := assemble(live, own, tracker.Imports(), seed)
		_ = os.WriteFile(realFile, []byte(src), 0o644)
		cmd := exec.Command("go", "test", "-c", "-vet=off", "-gcflags=-e", "-overlay", overlay, "-o", bin, "./fixtures/vt")
		cmd.Dir = filepath.Join(w.Verif, "harness")
		out, err := runWithTimeout(cmd, 10*time.Minute)
		if err == nil {
			compiled = true
			break
		}
		ms := errLine.FindAllStringSubmatch(out, -1)
		if len(ms) == 0 {
			res.Inconclusive = append(res.Inconclusive, "check program does not build and no error could be attributed: "+clip(out, 1500))
			return res
		}
		droppedAny := false
		unattributed := []string{}
		for _, m := range ms {
			ln, _ := strconv.Atoi(m[1])
			var hit *caseInfo
			for _, in := range live {
				if ln >= in.Start && ln <= in.End {
					hit = in
				}
			}
			if hit == nil {
				unattributed = append(unattributed, m[0])
				continue
			}
			if hit.Dropped == "" {
				hit.Dropped = m[3]
				droppedAny = true
				_, v := valgen.Value(seed, hit.I)
				res.Fail("compile", hit.Root+" "+shapeKey(v), fmt.Sprintf("value %d (%s = %s) rendered via %s as\n%s\nwhich the compiler rejects: %s", hit.I, hit.Root, clip(hit.OrigDump, 300), hit.Via, clip(hit.Rendered, 500), m[3]), map[string]any{"i": hit.I, "seed": seed})
			}
		}
		if !droppedAny {
			res.Inconclusive = append(res.Inconclusive, "check program does not build; errors outside any case: "+clip(strings.Join(unattributed, "\n"), 1500))
			return res
		}
		var nl []*caseInfo
		for _, in := range live {
			if in.Dropped == "" {
				nl = append(nl, in)
			}
		}
		live = nl
	}
	if !compiled {
		if len(live) > 0 {
			res.Inconclusive = append(res.Inconclusive, "check program still does not build after 4 attempts")
		}
		return res
	}
	res.Inc("check_programs_compiled")
	outFile := filepath.Join(dir, "out.txt")
	run := exec.Command(bin, "-test.run", "TestC10Batch")
	run.Env = append(os.Environ(), "C10_OUT="+outFile)
	run.Dir = dir
	out, err := runWithTimeout(run, 5*time.Minute)
	if err != nil {
		res.Fail("program-run", "batch", fmt.Sprintf("compiled check program failed: %v\n%s", err, clip(out, 3000)), nil)
		return res
	}
	got := map[int]string{}
	f, err := os.Open(outFile)
	if err == nil {
		sc := bufio.NewScanner(f)
		sc.Buffer(make([]byte, 1<<20), 1<<26)
		for sc.Scan() {
			var rec struct {
				I int    `json:"i"`
				D string `json:"d"`
			}
			if json.Unmarshal(sc.Bytes(), &rec) == nil {
				got[rec.I] = rec.D
			}
		}
		f.Close()
	}
	for _, in := range live {
		d, ok := got[in.I]
		if !ok {
			res.Fail("program-run", "missing", fmt.Sprintf("no result for value %d", in.I), nil)
			continue
		}
		res.Inc("literals_evaluated_and_compared")
		if d != in.OrigDump {
			_, v := valgen.Value(seed, in.I)
			res.Fail("value-roundtrip", in.Root+" "+shapeKey(v), fmt.Sprintf("value %d (%s) rendered via %s as\n%s\nevaluates to\n%s\noriginal is\n%s", in.I, in.Root, in.Via, clip(in.Rendered, 500), clip(d, 600), clip(in.OrigDump, 600)), map[string]any{"i": in.I, "seed": seed})
		}
	}
	if len(live) > 0 {
		res.Sample(map[string]any{"root": live[0].Root, "rendered": clip(live[0].Rendered, 200), "via": live[0].Via, "mode": b.Mode}, 1)
		mid := live[len(live)/2]
		res.Sample(map[string]any{"root": mid.Root, "rendered": clip(mid.Rendered, 300), "via": mid.Via, "mode": b.Mode}, 2)
	}
	return res
}

func valueSeed(c core.Case) int64 {
	// stable per (run seed): cases carry sub-seeds derived from the run seed and their index; recover a run-level
	// value seed from the first case's parameters is not possible, so the coordinator's seed is passed via env.
	if s := os.Getenv("VERIF_SEED"); s != "" {
		if v, err := strconv.ParseInt(s, 10, 64); err == nil {
			return v
		}
	}
	return 1
}

func runWithTimeout(cmd *exec.Cmd, d time.Duration) (string, error) {
	var out bytes.Buffer
	cmd.Stdout = &out
	cmd.Stderr = &out
	if err := cmd.Start(); err != nil {
		return "", err
	}
	done := make(chan error, 1)
	go func() { done <- cmd.Wait() }()
	select {
	case err := <-done:
		return out.String(), err
	case <-time.After(d):
		_ = cmd.Process.Kill()
		<-done
		return out.String(), fmt.Errorf("timeout after %s", d)
	}
}

func assemble(live []*caseInfo, own bool, imports map[string]string, seed int64) string {
	var b strings.Builder
	if own {
		b.WriteString("package vt\n")
	} else {
		b.WriteString("package vt_test\n")
	}
	b.WriteString("import (\n\t\"encoding/json\"\n\t\"os\"\n\t\"testing\"\n\th_dump \"verif/dump\"\n")
	if !own {
		b.WriteString("\th_vt \"verif/fixtures/vt\"\n")
	}
	b.WriteString("\th_vu \"verif/fixtures/vu\"\n\th_time \"time\"\n\th_bytes \"bytes\"\n\th_appsv1 \"verif/fixtures/apps/v1\"\n\th_corev1 \"verif/fixtures/core/v1\"\n")
	var paths []string
	for p := range imports {
		paths = append(paths, p)
	}
	sort.Strings(paths)
	for _, p := range paths {
		fmt.Fprintf(&b, "\t%s %q\n", imports[p], p)
	}
	b.WriteString(")\n")
	if !own {
		b.WriteString("var _ h_vt.Leaf\n")
	}
	b.WriteString("var _ h_vu.Item\nvar _ h_time.Duration\nvar _ h_bytes.Buffer\nvar _ h_appsv1.Spec\nvar _ h_corev1.Spec\n")
	for _, p := range paths {
		if kt, ok := knownType[p]; ok {
			fmt.Fprintf(&b, "var _ %s.%s\n", imports[p], kt)
		}
	}
	b.WriteString("type c10rec struct {\n\tI int `json:\"i\"`\n\tD string `json:\"d\"`\n}\n")
	b.WriteString("func TestC10Batch(t *testing.T) {\n\tf, err := os.Create(os.Getenv(\"C10_OUT\"))\n\tif err != nil {\n\t\tt.Fatal(err)\n\t}\n\tdefer f.Close()\n\tenc := json.NewEncoder(f)\n")
	for _, in := range live {
		fmt.Fprintf(&b, "\tenc.Encode(c10rec{%d, h_dump.Dump(c10case%d())})\n", in.I, in.I)
	}
	b.WriteString("}\n")
	line := strings.Count(b.String(), "\n") + 1
	for _, in := range live {
		_, v := valgen.Value(seed, in.I)
		var s string
		if in.Decl == "short" {
			s = fmt.Sprintf("func c10case%d() any {\n\tgot := %s\n\treturn got\n}\n", in.I, in.Rendered)
		} else {
			s = fmt.Sprintf("func c10case%d() any {\n\tvar got %s = %s\n\treturn got\n}\n", in.I, typeText(v.Type(), own), in.Rendered)
		}
		in.Start = line
		line += strings.Count(s, "\n")
		in.End = line - 1
		b.WriteString(s)
	}
	return b.String()
}

func countMapsWithTwoKeys(v reflect.Value) int {
	n := 0
	switch v.Kind() {
	case reflect.Map:
		if v.Len() >= 2 {
			n++
		}
		for _, k := range v.MapKeys() {
			n += countMapsWithTwoKeys(v.MapIndex(k))
		}
	case reflect.Ptr:
		if !v.IsNil() {
			n += countMapsWithTwoKeys(v.Elem())
		}
	case reflect.Slice, reflect.Array:
		for i := 0; i < v.Len(); i++ {
			n += countMapsWithTwoKeys(v.Index(i))
		}
	case reflect.Struct:
		for i := 0; i < v.NumField(); i++ {
			n += countMapsWithTwoKeys(v.Field(i))
		}
	}
	return n
}

// shapeKey: a coarse finding key: which corner of the domain the value sits in.
func shapeKey(v reflect.Value) string {
	var tags []string
	var walk func(v reflect.Value, inField bool)
	seen := map[string]bool{}
	add := func(s string) {
		if !seen[s] {
			seen[s] = true
			tags = append(tags, s)
		}
	}
	walk = func(v reflect.Value, inField bool) {
		switch v.Kind() {
		case reflect.Ptr:
			if v.IsNil() {
				return
			}
			e := v.Elem()
			switch e.Kind() {
			case reflect.Struct:
				if e.IsZero() {
					add("ptr-to-zero-struct")
				}
			case reflect.Map, reflect.Slice:
				add("ptr-to-container")
			default:
				if e.Type().PkgPath() != "" {
					add("ptr-to-named-" + e.Kind().String())
				} else {
					add("ptr-to-" + e.Kind().String())
				}
			}
			walk(e, false)
		case reflect.Struct:
			for i := 0; i < v.NumField(); i++ {
				if v.Type().Field(i).IsExported() {
					walk(v.Field(i), true)
				}
			}
		case reflect.Map:
			for _, k := range v.MapKeys() {
				e := v.MapIndex(k)
				if e.Kind() == reflect.Struct && e.IsZero() {
					add("map-value-zero-struct")
				}
				walk(e, false)
			}
		case reflect.Slice, reflect.Array:
			for i := 0; i < v.Len(); i++ {
				walk(v.Index(i), false)
			}
		case reflect.Float32, reflect.Float64:
			f := v.Float()
			if f >= 1e21 || f <= -1e21 {
				add("huge-float")
			}
		case reflect.Uintptr:
			add("uintptr")
		}
	}
	walk(v, false)
	sort.Strings(tags)
	return strings.Join(tags, "+")
}

func clip(s string, n int) string {
	if len(s) <= n {
		return s
	}
	return s[:n] + "…"
}
