// Package c09: snippet templating is faithful substitution.
// Differential monitor: every render of the real snippet package is compared with a reference
// renderer written from the property statement (not from gengo's scanner loops).
package c09

import (
	"bytes"
	"context"
	"fmt"
	"iter"
	"math/rand"
	"reflect"
	"slices"
	"strconv"
	"strings"

	"github.com/octohelm/gengo/pkg/gengo"
	"github.com/octohelm/gengo/pkg/gengo/snippet"
	"github.com/octohelm/gengo/pkg/namer"

	"verif/internal/core"
)

func init() { core.Register(&prop{}) }

type prop struct{}

func (*prop) ID() string    { return "C09" }
func (*prop) Level() string { return "exploration" }
func (*prop) Rule() string {
	return "T: every format string up to length L over the alphabet {a,B,1,_,@,',%,space,\\n,{,é} (exhaustive, L=4 quick / 6 thorough) rendered under ≥8 binding environments per format " +
		"(every name bound to: nil Value, empty Block, empty T, literal Block, placeholder-looking text, nested T with own args, Value, ID, Snippets, Comment, Sprintf; plus one name unbound at a time), " +
		"Sprintf: every format up to length L over {a,%,v,T,d,é,space} x argument lists of length 0-3, plus seeded long random formats, Comment/GoDirective/Snippets/Fragments over generated texts and lists. " +
		"Oracle: (panicked?, bytes) equal to an independent reference renderer. Non-trivial = the format contains at least one '@' or '%' (or, for Comment/GoDirective/Snippets, at least two parts); " +
		"distinct = distinct (format, bindings) pairs - by construction for the exhaustive shards, by 64-bit hash for random ones."
}
func (*prop) Assumptions() []string {
	return []string{
		"a bare '@' not followed by a name character is unspecified by the statement: the reference accepts it dropped or kept, and a directly following apostrophe dropped or kept; everything else in such a format is strict",
		"Go-nil Snippet interface values, BOM and invalid UTF-8 inside the *format* are outside the domain",
		"Comment lines are compared after trimming trailing blanks",
		"on an expected panic only the fact of the panic is compared, not the partial output",
	}
}
func (*prop) MinDistinct(tier string) int64 {
	if tier == "thorough" {
		return 1000000
	}
	return 40000
}
func (*prop) Exhaustive(tier string) bool { return false }

var tAlphabet = []string{"a", "B", "1", "_", "@", "'", "%", " ", "\n", "{", "é"}
var sAlphabet = []string{"a", "%", "v", "T", "d", "é", " "}

type shard struct {
	Lo, Hi int64
	L      int
}

type randParams struct {
	N int
}

func (*prop) Cases(seed int64, tier string) []core.Case {
	tl, sl, nshard, nrand := 5, 6, 32, 16
	randN := 4000
	if tier == "thorough" {
		tl, sl, nshard, nrand = 6, 7, 96, 64
		randN = 20000
	}
	var cs []core.Case
	ts := core.StringSpace{Alphabet: tAlphabet, MaxLen: tl}
	for _, sh := range ts.Shards(nshard) {
		cs = append(cs, core.MkCase("T-exhaustive", shard{sh[0], sh[1], tl}))
	}
	ss := core.StringSpace{Alphabet: sAlphabet, MaxLen: sl}
	for _, sh := range ss.Shards(nshard) {
		cs = append(cs, core.MkCase("Sprintf-exhaustive", shard{sh[0], sh[1], sl}))
	}
	for i := 0; i < nrand; i++ {
		cs = append(cs, core.MkCase("T-random", randParams{randN}))
		cs = append(cs, core.MkCase("Sprintf-random", randParams{randN}))
	}
	cs = append(cs, core.MkCase("misc", randParams{randN}))
	cs = append(cs, core.MkCase("regressions", nil))
	return cs
}

// ---------------------------------------------------------------------------------------
// argument specifications: each knows how to build the real snippet and what the statement
// says its complete rendering is.

type ArgSpec struct {
	Kind string `json:"kind"`
}

var argKinds = []string{
	"nil-value", "empty-block", "empty-T", "lit", "placeholder-looking", "nested-T", "nested-T-leading-nl",
	"value-string", "value-int", "id", "snippets", "comment", "sprintf", "apostrophe",
}

func (a ArgSpec) Build() snippet.Snippet {
	switch a.Kind {
	case "nil-value":
		return snippet.Value(nil)
	case "empty-block":
		return snippet.Block("")
	case "empty-T":
		return snippet.T("")
	case "lit":
		return snippet.Block("LIT")
	case "placeholder-looking":
		return snippet.Block("@a'%v@@ @zz")
	case "nested-T":
		return snippet.T("<@x'@x>", snippet.Arg("x", snippet.Block("in@x")))
	case "nested-T-leading-nl":
		return snippet.T("\n\nX@y'Y\n", snippet.Args{"y": snippet.Block("'")})
	case "value-string":
		return snippet.Value("q\"@a'\n")
	case "value-int":
		return snippet.Value(42)
	case "id":
		return snippet.ID("Name")
	case "snippets":
		return snippet.Snippets(slices.Values([]snippet.Snippet{snippet.Block("s1"), snippet.Block(""), snippet.Value(nil), snippet.Block("@s2'")}))
	case "comment":
		return snippet.Comment("c1\nc2")
	case "sprintf":
		return snippet.Sprintf("p%vq%T", 1, "Tn")
	case "apostrophe":
		return snippet.Block("'")
	}
	panic("bad arg kind " + a.Kind)
}

func (a ArgSpec) Expect() (text string) {
	switch a.Kind {
	case "nil-value", "empty-block", "empty-T":
		return ""
	case "lit":
		return "LIT"
	case "placeholder-looking":
		return "@a'%v@@ @zz"
	case "nested-T":
		return "<in@xin@x>"
	case "nested-T-leading-nl":
		return "X'Y\n"
	case "value-string":
		return strconv.Quote("q\"@a'\n")
	case "value-int":
		return "42"
	case "id":
		return "Name"
	case "snippets":
		return "s1@s2'"
	case "comment":
		return "// c1\n// c2"
	case "sprintf":
		return "p1qTn"
	case "apostrophe":
		return "'"
	}
	panic("bad arg kind " + a.Kind)
}

func isNameChar(r rune) bool {
	return (r >= 'A' && r <= 'Z') || (r >= 'a' && r <= 'z') || (r >= '0' && r <= '9') || r == '_'
}

// seg is one element of the expected output: required text or optional text (bare-@ tolerance).
type seg struct {
	s   string
	opt bool
}

// refT is the reference renderer for T, written from the statement.
func refT(format string, env map[string]ArgSpec) (segs []seg, panics bool, names []string) {
	rs := []rune(strings.TrimLeft(format, "\n"))
	var lit strings.Builder
	flush := func() {
		if lit.Len() > 0 {
			segs = append(segs, seg{s: lit.String()})
			lit.Reset()
		}
	}
	for i := 0; i < len(rs); {
		r := rs[i]
		if r != '@' {
			lit.WriteRune(r)
			i++
			continue
		}
		j := i + 1
		for j < len(rs) && isNameChar(rs[j]) {
			j++
		}
		if j == i+1 {
			// bare '@': unspecified - accept dropped or kept; a directly following apostrophe likewise.
			flush()
			segs = append(segs, seg{s: "@", opt: true})
			i++
			if i < len(rs) && rs[i] == '\'' {
				segs = append(segs, seg{s: "'", opt: true})
				i++
			}
			continue
		}
		name := string(rs[i+1 : j])
		names = append(names, name)
		a, ok := env[name]
		if !ok {
			return nil, true, names
		}
		lit.WriteString(a.Expect())
		i = j
		if i < len(rs) && rs[i] == '\'' {
			i++ // one apostrophe directly after a placeholder is a delimiter
		}
	}
	flush()
	return segs, false, names
}

// namesIn lists placeholder names of a format without needing bindings.
func namesIn(format string) []string {
	rs := []rune(strings.TrimLeft(format, "\n"))
	var names []string
	for i := 0; i < len(rs); {
		if rs[i] != '@' {
			i++
			continue
		}
		j := i + 1
		for j < len(rs) && isNameChar(rs[j]) {
			j++
		}
		if j > i+1 {
			n := string(rs[i+1 : j])
			if !slices.Contains(names, n) {
				names = append(names, n)
			}
		}
		if j == i+1 {
			j = i + 1
		}
		i = j
	}
	return names
}

// matchSegs: does actual match the sequence of required / optional segments?
func matchSegs(segs []seg, actual string) bool {
	// positions reachable after consuming k segments
	cur := map[int]bool{0: true}
	for _, sg := range segs {
		nxt := map[int]bool{}
		for p := range cur {
			if sg.opt {
				nxt[p] = true
			}
			if strings.HasPrefix(actual[p:], sg.s) {
				nxt[p+len(sg.s)] = true
			}
		}
		cur = nxt
		if len(cur) == 0 {
			return false
		}
	}
	return cur[len(actual)]
}

func segString(segs []seg) string {
	var b strings.Builder
	for _, s := range segs {
		if s.opt {
			b.WriteString("(" + s.s + ")?")
		} else {
			b.WriteString(s.s)
		}
	}
	return b.String()
}

func newWriter(buf *bytes.Buffer) (gengo.SnippetWriter, namer.ImportTracker) {
	tr := namer.NewDefaultImportTracker()
	return gengo.NewSnippetWriter(buf, namer.NameSystems{"raw": namer.NewRawNamer("example.com/target", tr)}), tr
}

func render(s snippet.Snippet) (out string, panicked bool, pv any) {
	var buf bytes.Buffer
	w, _ := newWriter(&buf)
	panicked, pv, _ = core.Guard(func() { w.Render(s) })
	out = buf.String()
	if !panicked {
		// rendering is repeatable: the same snippet value rendered again (same writer) appends the same bytes
		before := buf.Len()
		if pk2, pv2, _ := core.Guard(func() { w.Render(s) }); pk2 {
			return out + fmt.Sprintf("\x00<second rendering of the same snippet panicked: %v>", pv2), false, nil
		}
		if second := buf.String()[before:]; second != out {
			return out + fmt.Sprintf("\x00<second rendering of the same snippet gave %q>", second), false, nil
		}
	}
	return out, panicked, pv
}

// renderOnce: for snippets over single-use sequences (a second rendering legitimately yields nothing)
func renderOnce(s snippet.Snippet) (out string, panicked bool, pv any) {
	var buf bytes.Buffer
	w, _ := newWriter(&buf)
	panicked, pv, _ = core.Guard(func() { w.Render(s) })
	return buf.String(), panicked, pv
}

type tInput struct {
	Format string             `json:"format"`
	Env    map[string]ArgSpec `json:"env"`
	Style  int                `json:"style"` // how the bindings are passed: 0 Args map, 1 Arg list, 2 overriding duplicates
}

func buildT(in tInput) snippet.Snippet {
	switch in.Style {
	case 1:
		var args []snippet.TArg
		for n, a := range in.Env {
			args = append(args, snippet.Arg(n, a.Build()))
		}
		return snippet.T(in.Format, args...)
	case 2:
		// earlier bindings of the same name must be overridden by later ones; nil TArg ignored
		var args []snippet.TArg
		for n := range in.Env {
			args = append(args, snippet.Arg(n, snippet.Block("OVERRIDDEN")))
		}
		args = append(args, nil)
		m := snippet.Args{}
		for n, a := range in.Env {
			m[n] = a.Build()
		}
		args = append(args, m)
		return snippet.T(in.Format, args...)
	case 3:
		// the bindings are what was bound WHEN T was called: the caller's map is changed and emptied afterwards
		m := snippet.Args{}
		for n, a := range in.Env {
			m[n] = a.Build()
		}
		sn := snippet.T(in.Format, m)
		for n := range m {
			m[n] = snippet.Block("CHANGED-AFTER-T")
		}
		for n := range m {
			delete(m, n)
			break
		}
		return sn
	default:
		m := snippet.Args{}
		for n, a := range in.Env {
			m[n] = a.Build()
		}
		return snippet.T(in.Format, m)
	}
}

// checkT returns "" if the real renderer agrees with the reference.
func checkT(in tInput) string {
	segs, wantPanic, _ := refT(in.Format, in.Env)
	got, panicked, pv := render(buildT(in))
	if wantPanic != panicked {
		if wantPanic {
			return fmt.Sprintf("expected a panic (unbound placeholder), got output %q", got)
		}
		return fmt.Sprintf("unexpected panic: %v (expected %q)", pv, segString(segs))
	}
	if panicked {
		return ""
	}
	if !matchSegs(segs, got) {
		return fmt.Sprintf("got %q want %q", got, segString(segs))
	}
	return ""
}

func (p *prop) failT(res *core.Result, in tInput, msg string) {
	// shrink the format under the same bindings
	sh := core.ShrinkString(in.Format, func(s string) bool {
		c := in
		c.Format = s
		return checkT(c) != ""
	})
	c := in
	c.Format = sh
	// drop bindings not needed
	for n := range in.Env {
		e2 := map[string]ArgSpec{}
		for k, v := range c.Env {
			if k != n {
				e2[k] = v
			}
		}
		c2 := c
		c2.Env = e2
		if checkT(c2) != "" {
			c = c2
		}
	}
	c.Style = 0
	if checkT(c) == "" {
		c.Style = in.Style
	}
	key := fmt.Sprintf("T %q %v", c.Format, envString(c.Env))
	res.Fail("T-differential", key, fmt.Sprintf("T(%q, %v): %s; shrunk: T(%q, %v): %s", in.Format, envString(in.Env), msg, c.Format, envString(c.Env), checkT(c)), in)
}

func envString(env map[string]ArgSpec) string {
	var ks []string
	for k := range env {
		ks = append(ks, k)
	}
	slices.Sort(ks)
	var b strings.Builder
	b.WriteString("{")
	for i, k := range ks {
		if i > 0 {
			b.WriteString(",")
		}
		b.WriteString(k + "=" + env[k].Kind)
	}
	b.WriteString("}")
	return b.String()
}

// envsFor enumerates binding environments for the names of a format.
func envsFor(names []string, idx int64) []map[string]ArgSpec {
	var envs []map[string]ArgSpec
	if len(names) == 0 {
		return []map[string]ArgSpec{{}}
	}
	// every kind applied uniformly
	for _, k := range argKinds {
		e := map[string]ArgSpec{}
		for _, n := range names {
			e[n] = ArgSpec{k}
		}
		envs = append(envs, e)
	}
	// rotated mixes for multi-name formats
	if len(names) > 1 {
		for rot := 0; rot < 4; rot++ {
			e := map[string]ArgSpec{}
			for i, n := range names {
				e[n] = ArgSpec{argKinds[(int(idx)+rot*5+i*3)%len(argKinds)]}
			}
			envs = append(envs, e)
		}
	}
	// one name unbound at a time (others literal)
	for _, miss := range names {
		e := map[string]ArgSpec{}
		for _, n := range names {
			if n != miss {
				e[n] = ArgSpec{"lit"}
			}
		}
		envs = append(envs, e)
	}
	return envs
}

func (p *prop) runTExhaustive(c core.Case, res *core.Result) {
	var sh shard
	c.Decode(&sh)
	sp := core.StringSpace{Alphabet: tAlphabet, MaxLen: sh.L}
	for i := sh.Lo; i < sh.Hi; i++ {
		f := sp.At(i)
		names := namesIn(f)
		nontriv := strings.ContainsAny(f, "@%")
		for ei, env := range envsFor(names, i) {
			in := tInput{Format: f, Env: env, Style: int((i + int64(ei)) % 4)}
			res.Evals++
			if nontriv {
				res.DistinctN++
			}
			if msg := checkT(in); msg != "" {
				p.failT(res, in, msg)
			}
			p.observeT(res, f, env)
		}
		if i%4099 == 0 && nontriv {
			res.Sample(map[string]any{"T": f, "names": names}, 2)
		}
	}
}

func (p *prop) observeT(res *core.Result, f string, env map[string]ArgSpec) {
	segs, wp, names := refT(f, env)
	if wp {
		res.Inc("T_expected_panics")
		return
	}
	if len(names) > 0 {
		res.Inc("T_renders_with_placeholders")
	}
	for _, s := range segs {
		if s.opt {
			res.Inc("T_relaxed_bare_at_segments")
			break
		}
	}
	tf := strings.TrimLeft(f, "\n")
	for _, n := range names {
		if a, ok := env[n]; ok && a.Expect() == "" && strings.Contains(tf, "@"+n+"'") {
			res.Inc("T_nil_arg_followed_by_apostrophe")
			break
		}
	}
}

// ---------------------------------------------------------------------------------------
// Sprintf

type sArg struct {
	Kind string `json:"kind"`
}

var sArgKinds = []string{"int", "string", "bool", "block", "nested-T", "typename", "qualified", "rtype", "string-with-verbs", "neg", "float", "slice"}

func (a sArg) Build() any {
	switch a.Kind {
	case "int":
		return 7
	case "string":
		return "s\"x"
	case "bool":
		return true
	case "block":
		return snippet.Block("BLK%v@a'")
	case "nested-T":
		return snippet.T("[@z']", snippet.Arg("z", snippet.Block("%T")))
	case "typename":
		return "Name"
	case "qualified":
		return "example.com/q/pkg.Thing"
	case "rtype":
		return reflect.TypeOf(map[string][]int{})
	case "string-with-verbs":
		return "%v%T%%@x'"
	case "neg":
		return int64(-9)
	case "float":
		return 1.5
	case "slice":
		return []string{"a"}
	}
	panic("bad sarg")
}

// ExpectV: the Go value literal (what %v must render); ok=false if the kind has no %v expectation.
func (a sArg) ExpectV() (string, bool) {
	switch a.Kind {
	case "int":
		return "7", true
	case "string":
		return strconv.Quote("s\"x"), true
	case "bool":
		return "true", true
	case "block":
		return "BLK%v@a'", true
	case "nested-T":
		return "[%T]", true
	case "typename":
		return strconv.Quote("Name"), true
	case "qualified":
		return strconv.Quote("example.com/q/pkg.Thing"), true
	case "string-with-verbs":
		return strconv.Quote("%v%T%%@x'"), true
	case "neg":
		return "-9", true
	case "float":
		return "1.5", true
	case "slice":
		return "[]string{\n\"a\",\n}", true
	}
	return "", false
}

// ExpectT: identifier/type rendering (what %T must render).
func (a sArg) ExpectT() (string, bool) {
	switch a.Kind {
	case "block":
		return "BLK%v@a'", true
	case "nested-T":
		return "[%T]", true
	case "typename":
		return "Name", true
	case "qualified":
		return "pkg.Thing", true
	case "rtype":
		return "map[string][]int", true
	case "string-with-verbs":
		// a string without a package path is rendered as is
		return "", false
	case "string":
		return "", false
	}
	return "", false
}

type sInput struct {
	Format string `json:"format"`
	Args   []sArg `json:"args"`
}

func refSprintf(in sInput) (out string, panics bool, inDomain bool) {
	rs := []rune(in.Format)
	var b strings.Builder
	ai := 0
	for i := 0; i < len(rs); i++ {
		if rs[i] != '%' {
			b.WriteRune(rs[i])
			continue
		}
		i++
		if i >= len(rs) {
			return "", true, true
		}
		switch rs[i] {
		case '%':
			b.WriteByte('%')
		case 'v':
			if ai >= len(in.Args) {
				return "", true, true
			}
			s, ok := in.Args[ai].ExpectV()
			if !ok {
				return "", false, false
			}
			b.WriteString(s)
			ai++
		case 'T':
			if ai >= len(in.Args) {
				return "", true, true
			}
			s, ok := in.Args[ai].ExpectT()
			if !ok {
				return "", false, false
			}
			b.WriteString(s)
			ai++
		default:
			return "", true, true
		}
	}
	return b.String(), false, true
}

func checkS(in sInput) (msg string, inDomain bool) {
	want, wantPanic, ok := refSprintf(in)
	if !ok {
		return "", false
	}
	args := make([]any, len(in.Args))
	for i, a := range in.Args {
		args[i] = a.Build()
	}
	got, panicked, pv := render(snippet.Sprintf(in.Format, args...))
	if panicked != wantPanic {
		if wantPanic {
			return fmt.Sprintf("expected a panic (missing argument / unsupported verb), got output %q", got), true
		}
		return fmt.Sprintf("unexpected panic: %v (expected %q)", pv, want), true
	}
	if !panicked && got != want {
		return fmt.Sprintf("got %q want %q", got, want), true
	}
	return "", true
}

func (p *prop) failS(res *core.Result, in sInput, msg string) {
	sh := core.ShrinkString(in.Format, func(s string) bool {
		m, ok := checkS(sInput{s, in.Args})
		return ok && m != ""
	})
	c := sInput{sh, in.Args}
	c.Args = core.ShrinkSlice(c.Args, func(a []sArg) bool {
		m, ok := checkS(sInput{sh, a})
		return ok && m != ""
	})
	m2, _ := checkS(c)
	res.Fail("Sprintf-differential", fmt.Sprintf("Sprintf %q nargs=%d", c.Format, len(c.Args)),
		fmt.Sprintf("Sprintf(%q, %v): %s; shrunk: Sprintf(%q, %v): %s", in.Format, in.Args, msg, c.Format, c.Args, m2), in)
}

func argListsFor(idx int64) [][]sArg {
	k := func(i int) sArg { return sArg{sArgKinds[(int(idx)+i)%len(sArgKinds)]} }
	return [][]sArg{
		{},
		{k(0)},
		{k(1), k(4)},
		{k(2), k(5), k(9)},
		{{"typename"}, {"qualified"}, {"block"}},
		{{"int"}, {"string-with-verbs"}, {"nested-T"}},
	}
}

func (p *prop) runSExhaustive(c core.Case, res *core.Result) {
	var sh shard
	c.Decode(&sh)
	sp := core.StringSpace{Alphabet: sAlphabet, MaxLen: sh.L}
	for i := sh.Lo; i < sh.Hi; i++ {
		f := sp.At(i)
		nontriv := strings.Contains(f, "%")
		for _, al := range argListsFor(i) {
			in := sInput{f, al}
			msg, ok := checkS(in)
			if !ok {
				res.Inc("Sprintf_skipped_no_expectation")
				continue
			}
			res.Evals++
			if nontriv {
				res.DistinctN++
			}
			if msg != "" {
				p.failS(res, in, msg)
			}
			if strings.Contains(f, "%%") {
				res.Inc("Sprintf_formats_with_percent_percent")
			}
			if _, wp, _ := refSprintf(in); wp {
				res.Inc("Sprintf_expected_panics")
			}
		}
		if i%3001 == 0 && nontriv {
			res.Sample(map[string]any{"Sprintf": f}, 2)
		}
	}
}

// ---------------------------------------------------------------------------------------
// random long formats

var tRandAlphabet = []string{"a", "b", "Z", "9", "_", "@", "@", "'", "'", "%", " ", "\n", "\t", "{", "}", "é", "世", ".", "(", "\"", "`", "\\", "@a", "@b'", "@x_1", "@@", "%v", "%%"}
var sRandAlphabet = []string{"a", "Z", "%", "%", "v", "T", "d", "é", " ", "\n", "@", "'", "%v", "%T", "%%", "%%%", "世", "\"", "`"}

func (p *prop) runTRandom(c core.Case, res *core.Result) {
	var rp randParams
	c.Decode(&rp)
	r := rand.New(rand.NewSource(c.Seed))
	for i := 0; i < rp.N; i++ {
		f := core.RandString(r, tRandAlphabet, 1+r.Intn(24))
		if r.Intn(4) == 0 {
			f = strings.Repeat("\n", r.Intn(3)) + f
		}
		names := namesIn(f)
		env := map[string]ArgSpec{}
		for _, n := range names {
			if r.Intn(12) == 0 {
				continue // unbound
			}
			env[n] = ArgSpec{argKinds[r.Intn(len(argKinds))]}
		}
		in := tInput{Format: f, Env: env, Style: r.Intn(4)}
		res.Evals++
		if strings.ContainsAny(f, "@%") {
			res.NonTrivial("T|" + f + "|" + envString(env))
		}
		if msg := checkT(in); msg != "" {
			p.failT(res, in, msg)
		}
		p.observeT(res, f, env)
		if i == 0 {
			res.Sample(map[string]any{"T": f, "env": envString(env)}, 1)
		}
	}
}

func (p *prop) runSRandom(c core.Case, res *core.Result) {
	var rp randParams
	c.Decode(&rp)
	r := rand.New(rand.NewSource(c.Seed))
	for i := 0; i < rp.N; i++ {
		f := core.RandString(r, sRandAlphabet, 1+r.Intn(20))
		n := r.Intn(5)
		args := make([]sArg, n)
		for j := range args {
			args[j] = sArg{sArgKinds[r.Intn(len(sArgKinds))]}
		}
		in := sInput{f, args}
		msg, ok := checkS(in)
		if !ok {
			res.Inc("Sprintf_skipped_no_expectation")
			continue
		}
		res.Evals++
		if strings.Contains(f, "%") {
			res.NonTrivial("S|" + f + "|" + fmt.Sprint(args))
		}
		if msg != "" {
			p.failS(res, in, msg)
		}
		if strings.Contains(f, "%%") {
			res.Inc("Sprintf_formats_with_percent_percent")
		}
		if i == 0 {
			res.Sample(map[string]any{"Sprintf": f, "args": args}, 1)
		}
	}
}

// ---------------------------------------------------------------------------------------
// Comment / GoDirective / Snippets / Fragments / Render(nil)

func trimLines(s string) string {
	ls := strings.Split(s, "\n")
	for i := range ls {
		ls[i] = strings.TrimRight(ls[i], " \t")
	}
	return strings.Join(ls, "\n")
}

func (p *prop) runMisc(c core.Case, res *core.Result) {
	var rp randParams
	c.Decode(&rp)
	r := rand.New(rand.NewSource(c.Seed))
	words := []string{"", "a", "hello world", " lead", "trail ", "@x'", "%v", "世界", "//", "/* */", "`", "\"q\"", "\\n", "go:embed x"}
	for i := 0; i < rp.N; i++ {
		// Comment
		nl := r.Intn(5)
		lines := make([]string, nl)
		for j := range lines {
			lines[j] = words[r.Intn(len(words))]
		}
		text := strings.Join(lines, "\n")
		got, panicked, pv := render(snippet.Comment(text))
		want := ""
		if text != "" {
			var outl []string
			for _, l := range strings.Split(text, "\n") {
				outl = append(outl, "// "+l)
			}
			want = strings.Join(outl, "\n")
		}
		res.Evals++
		if nl >= 2 {
			res.NonTrivial("C|" + text)
		}
		res.Inc("Comment_renders")
		if panicked || trimLines(got) != trimLines(want) {
			res.Fail("Comment", fmt.Sprintf("%q", text), fmt.Sprintf("Comment(%q): got %q (panic=%v %v) want %q", text, got, panicked, pv, want), text)
		}

		// GoDirective
		dirs := []string{"", "embed", "generate", "build"}
		d := dirs[r.Intn(len(dirs))]
		na := r.Intn(4)
		dargs := make([]string, na)
		for j := range dargs {
			dargs[j] = []string{"", "x", "a b", "*.txt", "@y'"}[r.Intn(5)]
		}
		got, panicked, pv = render(snippet.GoDirective(d, dargs...))
		want = ""
		if d != "" {
			want = "//go:" + d
			for _, a := range dargs {
				if a != "" {
					want += " " + a
				}
			}
		}
		res.Evals++
		if na >= 1 && d != "" {
			res.NonTrivial("D|" + d + "|" + strings.Join(dargs, "\x00"))
		}
		res.Inc("GoDirective_renders")
		if panicked || got != want {
			res.Fail("GoDirective", fmt.Sprintf("%q %q", d, dargs), fmt.Sprintf("GoDirective(%q,%q): got %q (panic=%v %v) want %q", d, dargs, got, panicked, pv, want), nil)
		}

		// Snippets / Fragments
		np := r.Intn(6)
		parts := make([]snippet.Snippet, np)
		want = ""
		var desc []string
		for j := range parts {
			a := ArgSpec{argKinds[r.Intn(len(argKinds))]}
			parts[j] = a.Build()
			want += a.Expect()
			desc = append(desc, a.Kind)
		}
		got, panicked, pv = render(snippet.Snippets(slices.Values(parts)))
		res.Evals++
		if np >= 2 {
			res.NonTrivial("SN|" + strings.Join(desc, ","))
		}
		res.Inc("Snippets_renders")
		if panicked || got != want {
			res.Fail("Snippets", strings.Join(desc, ","), fmt.Sprintf("Snippets(%v): got %q (panic=%v %v) want %q", desc, got, panicked, pv, want), desc)
		}
		// the same list as a single-use sequence (channel-fed, queue-draining: what a sequence yields it yields once) -
		// directly, as a T argument, through Fragments and nested in another Snippets: whoever peeks at the sequence
		// before rendering it loses its head (seeded change C09-m: Snippets.IsNil probing the sequence)
		if np >= 1 {
			oneShot := func() snippet.Snippet {
				i := 0
				return snippet.Snippets(func(yield func(snippet.Snippet) bool) {
					for i < len(parts) {
						p := parts[i]
						i++
						if !yield(p) {
							return
						}
					}
				})
			}
			for vi, variant := range []struct {
				name string
				sn   snippet.Snippet
				want string
			}{
				{"direct", oneShot(), want},
				{"T-argument", snippet.T("{@items'end}", snippet.Arg("items", oneShot())), "{" + want + "end}"},
				{"nested", snippet.Snippets(slices.Values([]snippet.Snippet{snippet.Block("<"), oneShot(), snippet.Block(">")})), "<" + want + ">"},
				{"Fragments", func() snippet.Snippet {
					one := oneShot()
					return snippet.Func(func(ctx context.Context) iter.Seq[string] { return snippet.Fragments(ctx, one) })
				}(), want},
			} {
				_ = vi
				g2, pk2, pv2 := renderOnce(variant.sn)
				res.Evals++
				res.Inc("single_use_sequence_renders")
				if np >= 2 {
					res.NonTrivial("SN1|" + variant.name + "|" + strings.Join(desc, ","))
				}
				if pk2 || g2 != variant.want {
					res.Fail("Snippets", "single-use "+variant.name, fmt.Sprintf("Snippets over a single-use sequence (%s) of %v: got %q (panic=%v %v) want %q", variant.name, desc, g2, pk2, pv2, variant.want), desc)
				}
			}
		}
		// Fragments over each part
		for j, part := range parts {
			var b strings.Builder
			var buf bytes.Buffer
			w, _ := newWriter(&buf)
			_ = w
			pk, pvv, _ := core.Guard(func() {
				// Fragments needs the dumper context: go through a Func snippet rendered by the writer
				w.Render(snippet.Func(func(ctx context.Context) iter.Seq[string] {
					return snippet.Fragments(ctx, part)
				}))
			})
			b.WriteString(buf.String())
			wantp := ArgSpec{desc[j]}.Expect()
			res.Evals++
			res.Inc("Fragments_renders")
			if pk || b.String() != wantp {
				res.Fail("Fragments", desc[j], fmt.Sprintf("Fragments(%s): got %q (panic=%v %v) want %q", desc[j], b.String(), pk, pvv, wantp), desc[j])
			}
		}
	}
	// Render(nil) is a no-op
	var buf bytes.Buffer
	w, _ := newWriter(&buf)
	pk, _, _ := core.Guard(func() { w.Render(nil) })
	if pk || buf.Len() != 0 {
		res.Fail("Render-nil", "nil", "Render(nil) must write nothing", nil)
	}
}

// regressions: the shrunk failing inputs of the defects repaired by fix: commits stay in the corpus.
func (p *prop) runRegressions(res *core.Result) {
	lit := map[string]ArgSpec{"x": {"lit"}}
	niln := map[string]ArgSpec{"x": {"nil-value"}, "a": {"empty-block"}}
	for _, in := range []tInput{
		{Format: "a@x'b", Env: niln},
		{Format: "@a'", Env: niln},
		{Format: "@x'@x''", Env: niln},
		{Format: "\n\n@x", Env: lit},
		{Format: "@x'@x", Env: lit},
		{Format: "@y", Env: lit},
	} {
		res.Evals++
		res.NonTrivial("RT|" + in.Format + envString(in.Env))
		if msg := checkT(in); msg != "" {
			p.failT(res, in, msg)
		}
	}
	for _, in := range []sInput{
		{"100%%", nil}, {"a%%b", nil}, {"a%%v", []sArg{{"int"}}}, {"%%%v", []sArg{{"int"}}}, {"%%", nil}, {"%%%%", nil}, {"%", nil}, {"%d", []sArg{{"int"}}}, {"%v", nil},
	} {
		res.Evals++
		res.NonTrivial("RS|" + in.Format)
		if msg, _ := checkS(in); msg != "" {
			p.failS(res, in, msg)
		}
	}
}

func (p *prop) Run(c core.Case, w *core.Worker) core.Result {
	res := core.Result{CaseID: c.ID}
	switch c.Kind {
	case "T-exhaustive":
		p.runTExhaustive(c, &res)
	case "Sprintf-exhaustive":
		p.runSExhaustive(c, &res)
	case "T-random":
		p.runTRandom(c, &res)
	case "Sprintf-random":
		p.runSRandom(c, &res)
	case "misc":
		p.runMisc(c, &res)
	case "regressions":
		p.runRegressions(&res)
	}
	return res
}
