// Package c18: partialstruct output mirrors the origin struct minus omitted fields (compiled check program).
package c18

import (
	"bytes"
	"fmt"
	"math/rand"
	"os"
	"os/exec"
	"path/filepath"
	"regexp"
	"strings"

	"verif/internal/core"
	"verif/internal/fixture"
	"verif/internal/specgen"
)

func init() { core.Register(&prop{}) }

type prop struct{}

func (*prop) ID() string    { return "C18" }
func (*prop) Level() string { return "exploration" }
func (*prop) Rule() string {
	return "seeded origin structs in a foreign package of the module and net/url.URL from the standard library (exported, non-embedded fields of scalar, slice, map, pointer, array, foreign named - time.Time, time.Duration, another module package -, error, any, io.Reader / fmt.Stringer types; struct tags with arbitrary backquote-free text incl. dots, colons, @, %, quotes, no key at all; doc comments with hostile text) x seeded omit sets (none, some, all but one) x replace tags whose replacement type provides DeepCopyIntoAs (also on a field that is omitted as well: it must stay omitted); " +
		"declarations `type x origin.T` ungrouped and inside a parenthesised group together with other partial structs; plus negative declarations (`type x int`, `type x struct{...}`, a plain struct inside a group of partial structs), each alone in its package. The real partialstruct generator runs through Execute. Positives: Execute succeeds, the package builds, and a generated in-package test reflects over the generated struct and the origin: " +
		"same retained field names in order, reflect.Type identity for every non-replaced field, equal tags, no omitted field; (*X)(nil).DeepCopyAs() == nil; for seeded fillings DeepCopyAs() returns an origin value whose retained fields are reflect.DeepEqual to the source's and whose omitted fields are zero. Negatives: Execute returns an error naming the generator and the package, and no file is written. " +
		"Non-trivial = an origin with >= 1 omitted field, a tag containing '.', a foreign named / interface / error field, a replace tag or a grouped declaration; distinct by hash of (origin source, omit set, replace set, grouping)."
}
func (*prop) Assumptions() []string {
	return []string{
		"origin fields are exported and not embedded (an unexported field of a foreign origin can never be copied from outside); func, chan and interface-literal field types are outside the stated domain",
		"replacement types provide DeepCopyIntoAs(*OriginFieldType); replaced fields are only generated for origin fields of a named type",
		"trusted: the Go compiler, reflect, and the reflection-based filler in the generated test",
	}
}
func (*prop) MinDistinct(tier string) int64 {
	if tier == "thorough" {
		return 500
	}
	return 60
}

type params struct {
	N int `json:"n"`
}

func (*prop) Cases(seed int64, tier string) []core.Case {
	nc, n := 16, 6
	if tier == "thorough" {
		nc, n = 96, 12
	}
	var cs []core.Case
	for i := 0; i < nc; i++ {
		cs = append(cs, core.MkCase("packages", params{n}))
	}
	cs = append(cs, core.MkCase("negatives", params{1}))
	return cs
}

const mod = "example.com/c18"

var fieldTypes = []string{"int", "string", "bool", "float64", "uint8", "int64", "[]string", "[]int", "[]byte", "map[string]int", "map[string]string", "map[int][]string", "*int", "*string", "*Inner", "Inner", "[]Inner", "map[string]Inner", "[3]int",
	"time.Time", "time.Duration", "*time.Time", "other.Thing", "*other.Thing", "[]other.Thing", "map[other.Key]other.Thing", "error", "any", "interface{}", "io.Reader", "fmt.Stringer", "Label", "[]Label", "map[Label]int", "Label", "Label", "error", "other.Thing",
	// a package whose name (meta) differs from its directory (kinds)
	"meta.Kind", "[]meta.Spec", "*meta.Spec", "map[string]meta.Kind",
	// two foreign types with the same NAME from different packages, also inside one type literal
	"meta.Thing", "*meta.Thing", "struct{ A other.Thing; B meta.Thing }", "map[other.Key]meta.Thing", "other.Thing",
	// containers that differ only in the type BEHIND a pointer (seeded change C18-n: type literals memoised under a
	// key that prints nothing for pointers: []*A and []*B both "[]")
	"[]*Inner", "[]*other.Thing", "[]*meta.Spec", "map[string]*Inner", "map[string]*other.Thing", "[2]*Inner", "[2]*meta.Thing", "[]*Inner", "[]*other.Thing",
	// packages whose directory name is a Go keyword (ptypes/struct, api/type, x/go) or starts with a digit (3rd): the
	// import needs a local name that is none of these (seeded change C18-l)
	"structpb.Value", "*structpb.Value", "map[string]structpb.Value", "[]typepb.Code", "typepb.Code", "gopkg.Mod", "third.Party", "struct{ V structpb.Value; C typepb.Code }"}

var tagPool = []string{"", `json:"name"`, `json:"name,omitempty" description:"The name. Must be unique."`, `validate:"@string[1,10]"`, `x:"100%"`, `k:"a:b c" j:"d.e.f"`, `weird tag without key`, `yaml:"a.b" json:"-"`, `doc:"it's \"quoted\""`, `path:"example.com/x.Y"`}

var docPool = []string{"", "plain doc", "doc with a dot. And another.", "has \"quotes\" and 'single'", "100% sure @someone", "path example.com/x.Y here", "Unicode 世界"}

type ofield struct {
	name string
	typ  string
	tag  string
	doc  string
}

type origin struct {
	name   string
	fields []ofield
}

type partial struct {
	// originPkg / originImport: "" = the module's origin package; otherwise a std package (e.g. net/url)
	originPkg string
	decl     string // lower-case declared name
	gen      string // generated struct name
	origin   *origin
	omit     map[string]bool
	replace  map[string]string // field -> replacement tag (type is repl.Name)
	grouped  bool
	nontriv  bool
	srcShape string
	// omitAndReplace: fields named by both tags (must stay omitted)
	omitAndReplace []string
}

func genOrigin(r *rand.Rand, name string) *origin {
	o := &origin{name: name}
	nf := 2 + r.Intn(8)
	for i := 0; i < nf; i++ {
		f := ofield{name: fmt.Sprintf("F%d", i), typ: fieldTypes[r.Intn(len(fieldTypes))], tag: tagPool[r.Intn(len(tagPool))], doc: docPool[r.Intn(len(docPool))]}
		o.fields = append(o.fields, f)
	}
	return o
}

func (o *origin) source() string {
	var b strings.Builder
	fmt.Fprintf(&b, "// %s is an origin struct.\ntype %s struct {\n", o.name, o.name)
	for _, f := range o.fields {
		if f.doc != "" {
			fmt.Fprintf(&b, "\t// %s\n", f.doc)
		}
		if f.tag != "" {
			fmt.Fprintf(&b, "\t%s %s `%s`\n", f.name, f.typ, f.tag)
		} else {
			fmt.Fprintf(&b, "\t%s %s\n", f.name, f.typ)
		}
	}
	b.WriteString("}\n\n")
	return b.String()
}

const originHeader = `package origin

import (
	"fmt"
	"io"
	"time"

	third "example.com/c18/3rd"
	typepb "example.com/c18/api/type"
	meta "example.com/c18/kinds"
	"example.com/c18/other"
	structpb "example.com/c18/ptypes/struct"
	gopkg "example.com/c18/x/go"
)

var (
	_ fmt.Stringer
	_ io.Reader
	_ time.Duration
	_ other.Thing
	_ meta.Kind
	_ third.Party
	_ typepb.Code
	_ structpb.Value
	_ gopkg.Mod
)

type Inner struct {
	A int
	B []string
}

type Label string

`

// packages in directories named like Go keywords / starting with a digit
var oddDirs = map[string]string{
	"ptypes/struct/struct.go": "package structpb\n\ntype Value struct {\n\tS string\n\tL []int\n}\n",
	"api/type/type.go":        "package typepb\n\ntype Code int\n",
	"x/go/go.go":              "package gopkg\n\ntype Mod struct {\n\tPath string\n}\n",
	"3rd/third.go":            "package third\n\ntype Party struct {\n\tN int\n}\n",
}

func writeOddDirs(m *fixture.Module) {
	for f, src := range oddDirs {
		m.MustWrite(f, src)
	}
}

// kindsSrc lives in directory kinds/ but declares package meta.
const kindsSrc = `package meta

type Kind string

type Spec struct {
	N int
}

// Thing: same type NAME as other.Thing
type Thing struct {
	M string
}
`

const otherSrc = `package other

type Key string

type Thing struct {
	N int
	S string
}
`

const replSrc = `package repl

import "example.com/c18/origin"

// Name replaces origin.Label fields.
type Name string

func (n *Name) DeepCopyIntoAs(out *origin.Label) {
	*out = origin.Label(*n)
}
`

const helpers = `
type c18rng struct{ s uint64 }

func (r *c18rng) next() uint64 {
	r.s = r.s*6364136223846793005 + 1442695040888963407
	return r.s >> 11
}

func c18fill(r *c18rng, v reflect.Value, depth int) {
	if depth > 4 {
		return
	}
	switch v.Kind() {
	case reflect.Bool:
		v.SetBool(r.next()%2 == 0)
	case reflect.Int, reflect.Int8, reflect.Int16, reflect.Int32, reflect.Int64:
		v.SetInt(int64(r.next()%100) + 1)
	case reflect.Uint, reflect.Uint8, reflect.Uint16, reflect.Uint32, reflect.Uint64, reflect.Uintptr:
		v.SetUint(r.next()%100 + 1)
	case reflect.Float32, reflect.Float64:
		v.SetFloat(float64(r.next()%1000) / 8)
	case reflect.String:
		v.SetString(fmt.Sprintf("s%d", r.next()%1000))
	case reflect.Ptr:
		if r.next()%4 == 0 {
			return
		}
		p := reflect.New(v.Type().Elem())
		c18fill(r, p.Elem(), depth+1)
		v.Set(p)
	case reflect.Slice:
		switch r.next() % 6 {
		case 0:
			return
		case 1:
			// allocated but empty (with spare capacity): not the same value as a nil slice
			v.Set(reflect.MakeSlice(v.Type(), 0, 3))
			return
		}
		n := int(r.next()%3) + 1
		s := reflect.MakeSlice(v.Type(), n, n)
		for i := 0; i < n; i++ {
			c18fill(r, s.Index(i), depth+1)
		}
		v.Set(s)
	case reflect.Array:
		for i := 0; i < v.Len(); i++ {
			c18fill(r, v.Index(i), depth+1)
		}
	case reflect.Map:
		switch r.next() % 6 {
		case 0:
			return
		case 1:
			v.Set(reflect.MakeMap(v.Type()))
			return
		}
		m := reflect.MakeMap(v.Type())
		for i := 0; i < int(r.next()%3)+1; i++ {
			k := reflect.New(v.Type().Key()).Elem()
			c18fill(r, k, depth+1)
			e := reflect.New(v.Type().Elem()).Elem()
			c18fill(r, e, depth+1)
			m.SetMapIndex(k, e)
		}
		v.Set(m)
	case reflect.Struct:
		if v.Type() == reflect.TypeOf(time.Time{}) {
			v.Set(reflect.ValueOf(time.Unix(int64(r.next()%100000), 0)))
			return
		}
		for i := 0; i < v.NumField(); i++ {
			if v.Field(i).CanSet() {
				c18fill(r, v.Field(i), depth+1)
			}
		}
	case reflect.Interface:
		if r.next()%3 == 0 {
			return
		}
		var x any
		switch {
		case v.Type() == reflect.TypeOf((*error)(nil)).Elem():
			x = errors.New("e")
		case v.Type() == reflect.TypeOf((*io.Reader)(nil)).Elem():
			x = strings.NewReader("r")
		case v.Type() == reflect.TypeOf((*fmt.Stringer)(nil)).Elem():
			x = time.Second
		default:
			x = int(r.next() % 50)
		}
		v.Set(reflect.ValueOf(x))
	}
}

// c18shape compares the generated struct type with the origin.
func c18shape(id int, part, orig reflect.Type, omit, replaced map[string]bool) {
	var want []reflect.StructField
	for i := 0; i < orig.NumField(); i++ {
		if !omit[orig.Field(i).Name] {
			want = append(want, orig.Field(i))
		}
	}
	if part.NumField() != len(want) {
		fmt.Printf("C18MISMATCH %d generated struct has %d fields, origin minus omitted has %d\n", id, part.NumField(), len(want))
		return
	}
	for i, w := range want {
		g := part.Field(i)
		if g.Name != w.Name {
			fmt.Printf("C18MISMATCH %d field %d is %s, origin order says %s\n", id, i, g.Name, w.Name)
			continue
		}
		if replaced[w.Name] {
			continue
		}
		if g.Type != w.Type {
			fmt.Printf("C18MISMATCH %d field %s has type %s, origin has %s\n", id, g.Name, g.Type, w.Type)
		}
		if g.Tag != w.Tag {
			fmt.Printf("C18MISMATCH %d field %s has tag %q, origin has %q\n", id, g.Name, g.Tag, w.Tag)
		}
	}
}

// c18copy compares source (generated struct value) and its DeepCopyAs result (origin value).
func c18copy(id int, src, dst reflect.Value, omit, replaced map[string]bool) {
	for i := 0; i < dst.NumField(); i++ {
		n := dst.Type().Field(i).Name
		d := dst.Field(i)
		if omit[n] {
			if !d.IsZero() {
				fmt.Printf("C18MISMATCH %d omitted field %s is not zero in the copy: %v\n", id, n, d.Interface())
			}
			continue
		}
		s := src.FieldByName(n)
		if !s.IsValid() {
			fmt.Printf("C18MISMATCH %d retained field %s missing in the generated struct\n", id, n)
			continue
		}
		if replaced[n] {
			if fmt.Sprint(s.Interface()) != fmt.Sprint(d.Interface()) {
				fmt.Printf("C18MISMATCH %d replaced field %s: source %v, copy %v\n", id, n, s.Interface(), d.Interface())
			}
			continue
		}
		if !reflect.DeepEqual(s.Interface(), d.Interface()) {
			fmt.Printf("C18MISMATCH %d retained field %s: source %v, copy %v\n", id, n, s.Interface(), d.Interface())
		}
	}
}
`

func setLit(m map[string]bool) string {
	var ks []string
	for k := range m {
		ks = append(ks, fmt.Sprintf("%q: true", k))
	}
	return "map[string]bool{" + strings.Join(sorted(ks), ", ") + "}"
}

func sorted(s []string) []string {
	out := append([]string{}, s...)
	for i := range out {
		for j := i + 1; j < len(out); j++ {
			if out[j] < out[i] {
				out[i], out[j] = out[j], out[i]
			}
		}
	}
	return out
}

func testFile(pkg string, ps []*partial) string {
	var b strings.Builder
	fmt.Fprintf(&b, "package %s\n\nimport (\n\t\"errors\"\n\t\"fmt\"\n\t\"io\"\n\t\"reflect\"\n\t\"strings\"\n\t\"testing\"\n\t\"time\"\n\n\th_url \"net/url\"\n\n\th_origin \"%s/origin\"\n)\n\nvar _ h_url.URL\nvar _ = errors.New\nvar _ io.Reader\nvar _ = strings.NewReader\n", pkg, mod)
	b.WriteString(helpers)
	b.WriteString("\nfunc TestC18Partial(t *testing.T) {\n")
	for i, p := range ps {
		repl := map[string]bool{}
		for k := range p.replace {
			repl[k] = true
		}
		fmt.Fprintf(&b, "\t{\n\t\tomit, repl := %s, %s\n", setLit(p.omit), setLit(repl))
		oq := "h_origin"
		if p.originPkg != "" {
			oq = "h_url"
		}
		fmt.Fprintf(&b, "\t\tc18shape(%d, reflect.TypeOf(%s{}), reflect.TypeOf(%s.%s{}), omit, repl)\n", i, p.gen, oq, p.origin.name)
		fmt.Fprintf(&b, "\t\tvar nilp *%s\n\t\tif nilp.DeepCopyAs() != nil {\n\t\t\tfmt.Printf(\"C18MISMATCH %d DeepCopyAs of nil is not nil\\n\")\n\t\t}\n", p.gen, i)
		fmt.Fprintf(&b, "\t\tfor seed := uint64(1); seed <= 5; seed++ {\n\t\t\tsrc := new(%s)\n\t\t\tc18fill(&c18rng{s: seed}, reflect.ValueOf(src).Elem(), 0)\n\t\t\tdst := src.DeepCopyAs()\n\t\t\tif dst == nil {\n\t\t\t\tfmt.Printf(\"C18MISMATCH %d DeepCopyAs returned nil\\n\")\n\t\t\t\tcontinue\n\t\t\t}\n\t\t\tvar _ *%s.%s = dst\n\t\t\tc18copy(%d, reflect.ValueOf(src).Elem(), reflect.ValueOf(dst).Elem(), omit, repl)\n\t\t}\n\t}\n", p.gen, i, oq, p.origin.name, i)
	}
	fmt.Fprintf(&b, "\tfmt.Printf(\"C18DONE %s\\n\")\n}\n", pkg)
	return b.String()
}

var localMismatchRe = regexp.MustCompile(`C18LOCALMISMATCH (\S+) (.*)`)

// localOrigin: `type accountView Account` with Account declared in the same package; exported and unexported fields.
type localOrigin struct {
	fields []lfield
	omit   map[string]bool
	twin   bool
}

type lfield struct{ name, typ, tag, val string }

var lfieldPool = []lfield{
	{"ID", "string", `json:"id"`, `"a1"`},
	{"Labels", "map[string]string", `json:"labels,omitempty"`, `map[string]string{"k": "v"}`},
	{"Scopes", "[]string", "", `[]string{"read", "write"}`},
	{"CreatedAt", "time.Time", `json:"createdAt"`, `time.Unix(1700000000, 0).UTC()`},
	{"Err", "error", "", `errors.New("boom")`},
	{"Secret", "string", `json:"-"`, `"s3cret"`},
	{"Count", "int", "", `42`},
	{"revision", "int", "", `7`},
	{"owner", "*string", "", `&c18owner`},
	{"dirty", "map[string]bool", `k:"v"`, `map[string]bool{"ID": true}`},
	{"history", "[]string", "", `[]string{"created", "renamed"}`},
	{"_rev", "int64", "", `99`},
	{"note", "string", "", `"n"`},
	{"_", "int32", "", ""}, // a blank field: mirrored, never copied (it cannot be named)
	// twins: names that differ in the case of the first letter only (an exported field and its unexported cache) - an
	// omit tag names exactly one of them (seeded change C18-m: omit names normalised to the exported spelling)
	{"count", "int", "", `3`},
	{"secret", "[]byte", "", `[]byte("x")`},
	{"Note", "string", `json:"note"`, `"N"`},
}

var twinPairs = [][2]string{{"Count", "count"}, {"Secret", "secret"}, {"Note", "note"}}

func poolField(name string) lfield {
	for _, f := range lfieldPool {
		if f.name == name {
			return f
		}
	}
	panic("no such pool field: " + name)
}

func genLocalOrigin(r *rand.Rand) *localOrigin {
	lo := &localOrigin{omit: map[string]bool{}}
	for _, i := range r.Perm(len(lfieldPool))[:4+r.Intn(len(lfieldPool)-3)] {
		lo.fields = append(lo.fields, lfieldPool[i])
	}
	exported := 0
	for _, f := range lo.fields {
		if f.name[0] >= 'A' && f.name[0] <= 'Z' {
			exported++
		}
	}
	if exported == 0 {
		lo.fields = append(lo.fields, lfieldPool[0])
	}
	for _, f := range lo.fields {
		if r.Intn(4) == 0 && f.name != "_" {
			lo.omit[f.name] = true
		}
	}
	if r.Intn(2) == 0 {
		// both twins present, exactly one of them omitted
		tw := twinPairs[r.Intn(len(twinPairs))]
		for _, n := range tw {
			has := false
			for _, f := range lo.fields {
				has = has || f.name == n
			}
			if !has {
				lo.fields = append(lo.fields, poolField(n))
			}
		}
		k := r.Intn(2)
		lo.omit[tw[k]] = true
		delete(lo.omit, tw[1-k])
		lo.twin = true
	}
	if len(lo.omit) == len(lo.fields) {
		delete(lo.omit, lo.fields[0].name)
	}
	return lo
}

func (lo *localOrigin) source() string {
	var b strings.Builder
	b.WriteString("package localpart\n\nimport \"time\"\n\nvar _ time.Time\n\n// Account is the origin, declared in this very package.\ntype Account struct {\n")
	for _, f := range lo.fields {
		if f.tag != "" {
			fmt.Fprintf(&b, "\t%s %s `%s`\n", f.name, f.typ, f.tag)
		} else {
			fmt.Fprintf(&b, "\t%s %s\n", f.name, f.typ)
		}
	}
	b.WriteString("}\n\n// +gengo:partialstruct\n")
	for _, k := range sorted(keys(lo.omit)) {
		fmt.Fprintf(&b, "// +gengo:partialstruct:omit=%s\n", k)
	}
	b.WriteString("type accountView Account\n")
	return b.String()
}

func (lo *localOrigin) testFile() string {
	var b strings.Builder
	b.WriteString("package localpart\n\nimport (\n\t\"errors\"\n\t\"fmt\"\n\t\"reflect\"\n\t\"testing\"\n\t\"time\"\n)\n\nvar _ = errors.New\nvar _ time.Time\nvar c18owner = \"root\"\n\n")
	b.WriteString("func TestC18Local(t *testing.T) {\n\tdefer fmt.Println(\"C18LOCALDONE\")\n")
	fmt.Fprintf(&b, "\tomit := %s\n", setLit(lo.omit))
	b.WriteString(`	rt, ot := reflect.TypeOf(AccountView{}), reflect.TypeOf(Account{})
	var want []reflect.StructField
	for i := 0; i < ot.NumField(); i++ {
		if f := ot.Field(i); !omit[f.Name] {
			want = append(want, f)
		}
	}
	if rt.NumField() != len(want) {
		fmt.Printf("C18LOCALMISMATCH field-set generated struct has %d fields, want %d\n", rt.NumField(), len(want))
		return
	}
	for i, w := range want {
		g := rt.Field(i)
		if g.Name != w.Name || g.Type != w.Type || g.Tag != w.Tag || g.PkgPath != w.PkgPath {
			fmt.Printf("C18LOCALMISMATCH field-set field %d: got %s %s %q, want %s %s %q\n", i, g.Name, g.Type, g.Tag, w.Name, w.Type, w.Tag)
			return
		}
	}
	if (*AccountView)(nil).DeepCopyAs() != nil {
		fmt.Printf("C18LOCALMISMATCH nil DeepCopyAs on nil did not return nil\n")
		return
	}
`)
	b.WriteString("\tsrc := &AccountView{\n")
	for _, f := range lo.fields {
		if !lo.omit[f.name] && f.val != "" {
			fmt.Fprintf(&b, "\t\t%s: %s,\n", f.name, f.val)
		}
	}
	b.WriteString("\t}\n\tgot := src.DeepCopyAs()\n\texpect := &Account{\n")
	for _, f := range lo.fields {
		if !lo.omit[f.name] && f.val != "" {
			fmt.Fprintf(&b, "\t\t%s: src.%s,\n", f.name, f.name)
		}
	}
	b.WriteString("\t}\n\tif !reflect.DeepEqual(got, expect) {\n\t\tfmt.Printf(\"C18LOCALMISMATCH values retained fields are not carried over: got %+v want %+v\\n\", *got, *expect)\n\t}\n}\n")
	return b.String()
}

var mismatchRe = regexp.MustCompile(`C18MISMATCH (\d+) (.*)`)

func (p *prop) runBatch(c core.Case, w *core.Worker, res *core.Result, r *rand.Rand, n int) {
	m, err := fixture.New(w.Scratch, fmt.Sprintf("c18-%d", c.ID), mod, "1.24")
	if err != nil {
		res.Inconclusive = append(res.Inconclusive, err.Error())
		return
	}
	defer m.Remove()
	m.MustWrite("other/other.go", otherSrc)
	m.MustWrite("kinds/kinds.go", kindsSrc)
	writeOddDirs(m)
	m.MustWrite("repl/repl.go", replSrc)
	var osrc strings.Builder
	osrc.WriteString(originHeader)
	type pk struct {
		name string
		src  string
		ps   []*partial
	}
	var pks []pk
	var entries []string
	on := 0
	for i := 0; i < n; i++ {
		name := fmt.Sprintf("part%d", i)
		var src strings.Builder
		// a grouped import with several specs; in half of the packages the partial types are the FIRST declarations
		// after it (the blank use of net/url then comes last)
		urlUseLast := r.Intn(2) == 0
		fmt.Fprintf(&src, "package %s\n\nimport (\n\t\"net/url\"\n\n\t\"%s/origin\"\n)\n\n", name, mod)
		if !urlUseLast {
			src.WriteString("var _ url.URL\n\n")
		}
		var ps []*partial
		np := 1 + r.Intn(4)
		mk := func(grouped bool) *partial {
			on++
			o := genOrigin(r, fmt.Sprintf("O%d", on))
			osrc.WriteString(o.source())
			pt := &partial{decl: fmt.Sprintf("p%d", on), gen: fmt.Sprintf("P%d", on), origin: o, omit: map[string]bool{}, replace: map[string]string{}, grouped: grouped}
			switch r.Intn(4) {
			case 0:
			case 1:
				for _, f := range o.fields[1:] {
					pt.omit[f.name] = true
				}
			default:
				for _, f := range o.fields {
					if r.Intn(3) == 0 {
						pt.omit[f.name] = true
					}
				}
			}
			for _, f := range o.fields {
				if f.typ == "Label" && !pt.omit[f.name] && r.Intn(2) == 0 {
					pt.replace[f.name] = []string{"", `json:"replaced"`, `json:"r.e" x:"y z"`}[r.Intn(3)]
				}
				// a field named by BOTH an omit and a replace tag stays omitted
				if f.typ == "Label" && pt.omit[f.name] && r.Intn(2) == 0 {
					pt.omitAndReplace = append(pt.omitAndReplace, f.name)
				}
				if !pt.omit[f.name] && (strings.Contains(f.tag, ".") || strings.Contains(f.typ, ".") || f.typ == "error" || f.typ == "any") {
					pt.nontriv = true
				}
			}
			if len(pt.omit) > 0 || len(pt.replace) > 0 || grouped {
				pt.nontriv = true
			}
			return pt
		}
		doc := func(pt *partial, ind string) string {
			var s strings.Builder
			fmt.Fprintf(&s, "%s// +gengo:partialstruct\n", ind)
			for _, k := range sorted(keys(pt.omit)) {
				fmt.Fprintf(&s, "%s// +gengo:partialstruct:omit=%s\n", ind, k)
			}
			for _, k := range sorted(keysS(pt.replace)) {
				fmt.Fprintf(&s, "%s// +gengo:partialstruct:replace=%s:%s/repl.Name %s\n", ind, k, mod, pt.replace[k])
			}
			for _, k := range pt.omitAndReplace {
				fmt.Fprintf(&s, "%s// +gengo:partialstruct:replace=%s:%s/repl.Name json:\"both\"\n", ind, k, mod)
			}
			return s.String()
		}
		if r.Intn(3) == 0 && np >= 2 {
			src.WriteString("type (\n")
			for j := 0; j < np; j++ {
				pt := mk(true)
				src.WriteString(doc(pt, "\t"))
				fmt.Fprintf(&src, "\t%s origin.%s\n", pt.decl, pt.origin.name)
				ps = append(ps, pt)
			}
			src.WriteString(")\n\n")
		} else {
			for j := 0; j < np; j++ {
				pt := mk(false)
				src.WriteString(doc(pt, ""))
				fmt.Fprintf(&src, "type %s origin.%s\n\n", pt.decl, pt.origin.name)
				ps = append(ps, pt)
			}
		}
		if r.Intn(3) == 0 {
			// an origin from the standard library: net/url.URL (exported fields only, one pointer field)
			on++
			o := &origin{name: "URL"}
			for _, fn := range []string{"Scheme", "Opaque", "User", "Host", "Path", "RawPath", "OmitHost", "ForceQuery", "RawQuery", "Fragment", "RawFragment"} {
				o.fields = append(o.fields, ofield{name: fn, typ: "std"})
			}
			pt := &partial{originPkg: "net/url", decl: fmt.Sprintf("u%d", on), gen: fmt.Sprintf("U%d", on), origin: o, omit: map[string]bool{}, replace: map[string]string{}, nontriv: true}
			for _, f := range o.fields {
				if r.Intn(3) == 0 {
					pt.omit[f.name] = true
				}
			}
			src.WriteString(doc(pt, ""))
			fmt.Fprintf(&src, "type %s url.URL\n\n", pt.decl)
			ps = append(ps, pt)
		}
		if urlUseLast {
			src.WriteString("var _ url.URL\n")
		}
		pks = append(pks, pk{name, src.String(), ps})
		m.MustWrite(filepath.Join(name, "types.go"), src.String())
		// more than one source file per package (names sorting before and after types.go): declarations are looked
		// up by position across the package's files
		for _, fn := range []string{"a_helpers.go", "m_consts.go", "z_more.go"}[:1+r.Intn(3)] {
			id := strings.TrimSuffix(fn, ".go")
			m.MustWrite(filepath.Join(name, fn), fmt.Sprintf("package %s\n\n// %s is a hand-written helper.\nfunc %s() int {\n\treturn %d\n}\n\nconst K%s = %q\n%s", name, id, id, r.Intn(100), id, fn, strings.Repeat("\n// filler\n", r.Intn(40))))
		}
		entries = append(entries, "./"+name)
	}
	m.MustWrite("origin/origin.go", osrc.String())
	lo := genLocalOrigin(r)
	m.MustWrite("localpart/types.go", lo.source())
	if lo.twin {
		res.Inc("local_origins_with_twin_fields_one_of_them_omitted")
	}
	entries = append(entries, "./localpart")
	run := specgen.RunInProcess(m.Root, specgen.Args{Entrypoint: entries, OutputFileBaseName: "zz_generated"}, []specgen.GenSpec{{Name: "partialstruct", Real: true}})
	res.Inc("gengo_runs")
	if run.Failed {
		res.Fail("execute", execKey(run.Err+run.Panic), "Execute(partialstruct) failed on well-formed declarations: "+clip(run.Err+run.Panic, 1500)+"\n--- origins:\n"+clip(osrc.String(), 2500), nil)
		return
	}
	{
		// the origin declared in the SAME package as the partial type, with unexported fields among the retained ones
		m.MustWrite("localpart/c18_test.go", lo.testFile())
		cmd := exec.Command("go", "test", "-v", "-count=1", "-vet=off", "-run", "TestC18Local", "./localpart")
		cmd.Dir = m.Root
		cmd.Env = append(os.Environ(), "GOFLAGS=-mod=mod")
		ob, err := cmd.CombinedOutput()
		out := string(ob)
		res.Inc("compiled_test_programs")
		res.Inc("same_package_origins")
		res.Evals++
		res.NonTrivial("local|" + lo.source())
		gen, _ := m.Read("localpart/zz_generated.partialstruct.go")
		if !strings.Contains(out, "C18LOCALDONE") {
			res.Fail("compiles-and-runs", "local origin: "+compileKey(out), fmt.Sprintf("package localpart (origin in the same package): the generated code does not compile / the test did not finish (%v):\n%s\n--- declarations:\n%s\n--- generated (head):\n%s", err, clip(out, 1500), clip(lo.source(), 1500), clip(gen, 1500)), nil)
		} else if mm := localMismatchRe.FindStringSubmatch(out); mm != nil {
			res.Fail("local-origin", mm[1], fmt.Sprintf("package localpart (origin in the same package, unexported fields): %s\n--- declarations:\n%s\n--- generated (head):\n%s", mm[2], clip(lo.source(), 1500), clip(gen, 1500)), nil)
		}
	}
	for _, pkk := range pks {
		m.MustWrite(filepath.Join(pkk.name, "c18_test.go"), testFile(pkk.name, pkk.ps))
		cmd := exec.Command("go", "test", "-v", "-count=1", "-vet=off", "-run", "TestC18Partial", "./"+pkk.name)
		cmd.Dir = m.Root
		cmd.Env = append(os.Environ(), "GOFLAGS=-mod=mod")
		var ob bytes.Buffer
		cmd.Stdout, cmd.Stderr = &ob, &ob
		err := cmd.Run()
		out := ob.String()
		res.Inc("compiled_test_programs")
		if !strings.Contains(out, "C18DONE "+pkk.name) {
			gen, _ := m.Read(filepath.Join(pkk.name, "zz_generated.partialstruct.go"))
			res.Fail("compiles-and-runs", compileKey(out), fmt.Sprintf("package %s: the generated code does not compile / the test did not finish (%v):\n%s\n--- declarations:\n%s\n--- generated (head):\n%s", pkk.name, err, clip(out, 1500), clip(pkk.src, 1500), clip(gen, 1500)), nil)
			continue
		}
		bad := map[int]string{}
		for _, mm := range mismatchRe.FindAllStringSubmatch(out, -1) {
			var i int
			fmt.Sscanf(mm[1], "%d", &i)
			if _, ok := bad[i]; !ok {
				bad[i] = mm[2]
			}
		}
		for i, pt := range pkk.ps {
			res.Evals++
			if pt.nontriv {
				res.NonTrivial(fmt.Sprintf("%s|%v|%v|%v", strings.ReplaceAll(pt.origin.source(), pt.origin.name, "O"), pt.omit, pt.replace, pt.grouped))
			}
			res.Count("fields_compared", int64(len(pt.origin.fields)))
			if pt.originPkg != "" {
				res.Inc("std_origin_declarations")
			}
			if pt.grouped {
				res.Inc("grouped_declarations")
			}
			if len(pt.replace) > 0 {
				res.Inc("declarations_with_replace")
			}
			if len(pt.omitAndReplace) > 0 {
				res.Inc("declarations_with_a_field_both_omitted_and_replaced")
			}
			if msg, ok := bad[i]; ok {
				oracle := "mirrors-origin"
				if strings.Contains(msg, "copy") || strings.Contains(msg, "DeepCopyAs") {
					oracle = "copy-semantics"
				}
				res.Fail(oracle, fmt.Sprintf("grouped=%v", pt.grouped), fmt.Sprintf("package %s `type %s origin.%s` (omit %v, replace %v, grouped %v): %s\n--- origin:\n%s", pkk.name, pt.decl, pt.origin.name, keys(pt.omit), pt.replace, pt.grouped, msg, pt.origin.source()), nil)
			}
		}
	}
	if len(pks) > 0 {
		pt := pks[0].ps[0]
		res.Sample(map[string]any{"declaration": fmt.Sprintf("type %s origin.%s", pt.decl, pt.origin.name), "origin": pt.origin.source(), "omit": keys(pt.omit), "replace": pt.replace, "grouped": pt.grouped}, 1)
	}
}

func keys(m map[string]bool) []string {
	var k []string
	for x := range m {
		k = append(k, x)
	}
	return sorted(k)
}

func keysS(m map[string]string) []string {
	var k []string
	for x := range m {
		k = append(k, x)
	}
	return sorted(k)
}

func execKey(e string) string {
	if strings.Contains(e, "nil pointer") {
		return "panic nil pointer"
	}
	if strings.Contains(e, "expected") {
		return "unparseable output"
	}
	return "execute-error"
}

func compileKey(out string) string {
	for _, l := range strings.Split(out, "\n") {
		if i := strings.Index(l, ".go:"); i >= 0 {
			parts := strings.SplitN(l[i:], ": ", 2)
			if len(parts) == 2 {
				return clip(regexp.MustCompile(`[A-Za-z_]+\d+`).ReplaceAllString(parts[1], "X"), 80)
			}
		}
	}
	return "go test"
}

func (p *prop) runNegatives(c core.Case, w *core.Worker, res *core.Result) {
	negs := []struct{ name, src string }{
		{"scalar", "// +gengo:partialstruct\ntype x int\n"},
		{"plain-struct", "// +gengo:partialstruct\ntype x struct {\n\tA int\n}\n"},
		{"local-alias-of-basic", "// +gengo:partialstruct\ntype x string\n"},
		{"plain-struct-in-group", "type (\n\t// +gengo:partialstruct\n\ta origin.O1\n\t// +gengo:partialstruct\n\tb struct {\n\t\tX int\n\t}\n)\n"},
		// the same with EXPORTED names, and further kinds that are no struct defined from another named type
		{"exported-scalar", "// +gengo:partialstruct\ntype Count int\n"},
		{"exported-plain-struct", "// +gengo:partialstruct\ntype Summary struct {\n\tA int\n}\n"},
		{"exported-from-named-scalar", "// +gengo:partialstruct\ntype Level origin.Level\n"},
		{"from-named-scalar", "// +gengo:partialstruct\ntype x origin.Level\n"},
		{"from-named-map", "// +gengo:partialstruct\ntype x origin.Index\n"},
		{"slice-of-origin", "// +gengo:partialstruct\ntype x []origin.O1\n"},
		{"map-of-origin", "// +gengo:partialstruct\ntype X map[string]origin.O1\n"},
		{"func-type", "// +gengo:partialstruct\ntype x func(origin.O1) error\n"},
		{"interface-type", "// +gengo:partialstruct\ntype X interface{ M() }\n"},
		{"plain-struct-before-partial-in-group", "type (\n\t// +gengo:partialstruct\n\tb struct {\n\t\tX int\n\t}\n\t// +gengo:partialstruct\n\ta origin.O1\n)\n"},
	}
	for i, ng := range negs {
		m, err := fixture.New(w.Scratch, fmt.Sprintf("c18-neg-%d-%d", c.ID, i), mod, "1.24")
		if err != nil {
			res.Inconclusive = append(res.Inconclusive, err.Error())
			return
		}
		m.MustWrite("other/other.go", otherSrc)
		m.MustWrite("kinds/kinds.go", kindsSrc)
		writeOddDirs(m)
		m.MustWrite("origin/origin.go", originHeader+"type O1 struct {\n\tA int\n\tB string\n}\n\ntype Level int\n\ntype Index map[string]O1\n")
		src := "package neg\n\n"
		if strings.Contains(ng.src, "origin.") {
			src += "import \"" + mod + "/origin\"\n\n"
		}
		m.MustWrite("neg/types.go", src+ng.src)
		before := m.Snapshot()
		run := specgen.RunInProcess(m.Root, specgen.Args{Entrypoint: []string{"./neg"}, OutputFileBaseName: "zz_generated"}, []specgen.GenSpec{{Name: "partialstruct", Real: true}})
		after := m.Snapshot()
		res.Evals++
		res.NonTrivial("negative|" + ng.name)
		res.Inc("negative_declarations")
		if !run.Failed {
			gen, _ := m.Read("neg/zz_generated.partialstruct.go")
			res.Fail("negative-rejected", ng.name, fmt.Sprintf("declaration\n%s\nis not a partial struct definition but Execute succeeded and generated:\n%s", ng.src, clip(gen, 800)), nil)
		} else {
			if run.Panic != "" {
				res.Fail("negative-rejected", ng.name+" panic", "Execute panicked instead of returning an error: "+clip(run.Panic, 600), nil)
			} else if !strings.Contains(run.Err, "partialstruct") || !strings.Contains(run.Err, mod+"/neg") {
				res.Fail("negative-error-message", ng.name, fmt.Sprintf("error %q does not name the generator and the package", run.Err), nil)
			}
			cr, ch, de := fixture.Diff(before, after)
			if len(cr)+len(ch)+len(de) > 0 {
				res.Fail("negative-no-file", ng.name, fmt.Sprintf("files changed although the declaration was rejected: %v %v %v", cr, ch, de), nil)
			}
		}
		m.Remove()
	}
}

func clip(s string, n int) string {
	if len(s) <= n {
		return s
	}
	return s[:n] + "…"
}

func (p *prop) Run(c core.Case, w *core.Worker) core.Result {
	res := core.Result{CaseID: c.ID}
	var pa params
	c.Decode(&pa)
	r := rand.New(rand.NewSource(c.Seed))
	switch c.Kind {
	case "packages":
		p.runBatch(c, w, &res, r, pa.N)
	case "negatives":
		p.runNegatives(c, w, &res)
	}
	return res
}
