// Package c17: deepcopy output compiles and copies without sharing containers (compiled check program).
package c17

import (
	"bytes"
	"fmt"
	"math/rand"
	"os"
	"os/exec"
	"path/filepath"
	"regexp"
	"strings"

	"verif/internal/core"
	"verif/internal/fixture"
	"verif/internal/specgen"
)

func init() { core.Register(&prop{}) }

type prop struct{}

func (*prop) ID() string    { return "C17" }
func (*prop) Level() string { return "exploration" }
func (*prop) Rule() string {
	return "seeded type graphs in the stated domain: structs nested up to 4 deep by value with fields (random order, exported and unexported) of every scalar kind, strings, slices and maps of scalars, arrays of scalars, same-package named scalars and named maps, error, any, foreign interfaces (io.Reader, fmt.Stringer), foreign named types (time.Duration, time.Time), generic structs with bare type-parameter fields (declared under names sorting before and after their holders) and fields of their instantiations with scalar or same-package defined-scalar arguments; " +
		"enabling tag at package level or on every declaration (so that every reachable same-package type is effectively enabled), with and without gengo:deepcopy:interfaces. The real deepcopy generator runs twice through Execute (run 2 on the result of run 1): the generated files must be byte-identical; the package must build; a generated in-package test then, for every type and several seeded fillings, checks (*T)(nil).DeepCopy() == nil (M(nil).DeepCopy() == nil for named maps), reflect.DeepEqual(copy, orig) for DeepCopy and DeepCopyInto, " +
		"and, after appending to / assigning into every slice and map reachable through by-value nesting in the copy, that orig still equals an independent clone taken before. Non-trivial = a type with at least one container, named-map, interface or generic-instantiation field, or nesting depth >= 2; distinct by hash of the type's source text."
}
func (*prop) Assumptions() []string {
	return []string{
		"same-package dependencies that are not effectively enabled, named slice types, pointer fields, same-package interface types, slices/maps of non-scalars and generic fields that are not bare type parameters are outside the stated domain and not generated; generics are instantiated with scalar arguments",
		"trusted: the Go compiler, reflect.DeepEqual, and the reflection-based filler / cloner / mutator in the generated test",
	}
}
func (*prop) MinDistinct(tier string) int64 {
	if tier == "thorough" {
		return 1000
	}
	return 50
}

type params struct {
	N int `json:"n"`
}

func (*prop) Cases(seed int64, tier string) []core.Case {
	nc, n := 16, 4
	if tier == "thorough" {
		nc, n = 96, 12
	}
	var cs []core.Case
	for i := 0; i < nc; i++ {
		cs = append(cs, core.MkCase("packages", params{n}))
	}
	return cs
}

const mod = "example.com/c17"

var scalarTypes = []string{"bool", "int", "int8", "int16", "int32", "int64", "uint", "uint8", "uint16", "uint32", "uint64", "uintptr", "float32", "float64", "string", "rune", "byte", "complex128"}

type tdecl struct {
	name    string
	kind    string // struct named-scalar named-map generic
	src     string
	depth   int
	nontriv bool
	tparams int
	inst    string // instantiation used in the test
	ifaces  bool   // carries gengo:deepcopy:interfaces (a DeepCopyObject method is generated)
}

type gen struct {
	r     *rand.Rand
	n     int
	decls []*tdecl
	perT  bool // tags on every declaration instead of the package
	// same-package interface types (enabled like every other declaration, with or without the interfaces sub-tag; the
	// generator has nothing to render for them - seeded change C17-l) that struct fields may use
	ifaceTypes []string
	ifaceDecls int
	// declarations are spread over several files of the package (types.go + types_<k>.go): the order in which the
	// parser registers files differs from load to load, so nothing may be ordered by token.Pos across files
	// (seeded change C04-m: dependent types generated "in declaration order" by Obj().Pos())
	extra     map[string]*strings.Builder
	holders   int
	blockTags int
}

func (g *gen) name(p string) string {
	g.n++
	return fmt.Sprintf("%s%d", p, g.n)
}

func (g *gen) tagLine(t *tdecl, ifaces bool) string {
	var s string
	if g.perT && !(ifaces && g.r.Intn(2) == 0) {
		// (with the interfaces sub-tag the plain tag is left out half of the time: a sub-tag alone enables)
		s += "// +gengo:deepcopy\n"
	}
	if ifaces {
		s += "// +gengo:deepcopy:interfaces=" + mod + "/rt.Object\n"
		t.ifaces = true
	}
	if s != "" && g.r.Intn(6) == 0 {
		// the same tags in a multi-line block comment (seeded change C17-n: block docs filed under the wrong line)
		s = "/*\n" + strings.ReplaceAll(s, "// ", "") + "*/\n"
		g.blockTags++
	}
	return s
}

func (g *gen) pick(kind string) *tdecl {
	var c []*tdecl
	for _, d := range g.decls {
		if d.kind == kind {
			c = append(c, d)
		}
	}
	if len(c) == 0 {
		return nil
	}
	return c[g.r.Intn(len(c))]
}

func (g *gen) structDecl(maxDepth int) *tdecl {
	t := &tdecl{name: g.name("S"), kind: "struct"}
	if g.r.Intn(6) == 0 {
		t.name = strings.ToLower(t.name[:1]) + t.name[1:]
	}
	var b strings.Builder
	b.WriteString(g.tagLine(t, g.r.Intn(4) == 0))
	fmt.Fprintf(&b, "type %s struct {\n", t.name)
	nf := 1 + g.r.Intn(7)
	for i := 0; i < nf; i++ {
		fn := g.name("F")
		switch g.r.Intn(12) {
		case 0, 1:
			fn = strings.ToLower(fn[:1]) + fn[1:]
		case 2:
			fn = "_" + strings.ToLower(fn) // an ordinary (unexported) field whose name starts with an underscore
		case 3:
			fn = "Ünï" + fn
		case 4:
			fn = "_" // a blank field (padding, a no-unkeyed-literals guard)
		}
		var ft string
		switch g.r.Intn(14) {
		case 0, 1:
			ft = scalarTypes[g.r.Intn(len(scalarTypes))]
		case 2:
			ft = "[]" + scalarTypes[g.r.Intn(len(scalarTypes))]
			t.nontriv = true
		case 3:
			ft = "map[" + []string{"string", "int", "uint8", "float64", "bool"}[g.r.Intn(5)] + "]" + scalarTypes[g.r.Intn(len(scalarTypes))]
			t.nontriv = true
		case 4:
			ft = fmt.Sprintf("[%d]%s", 1+g.r.Intn(3), scalarTypes[g.r.Intn(len(scalarTypes))])
		case 5:
			if d := g.pick("named-scalar"); d != nil {
				ft = d.name
			} else {
				ft = "int"
			}
		case 6:
			if d := g.pick("named-map"); d != nil {
				ft = d.name
				t.nontriv = true
			} else {
				ft = "map[string]int"
			}
		case 7:
			ft = []string{"error", "any", "io.Reader", "fmt.Stringer", "interface{}"}[g.r.Intn(5)]
			if len(g.ifaceTypes) > 0 && g.r.Intn(3) == 0 {
				ft = g.ifaceTypes[g.r.Intn(len(g.ifaceTypes))]
			}
			t.nontriv = true
		case 8:
			ft = []string{"time.Duration", "time.Time"}[g.r.Intn(2)]
		case 9, 10:
			// nested struct by value
			var c []*tdecl
			for _, d := range g.decls {
				if d.kind == "struct" && d.depth < maxDepth {
					c = append(c, d)
				}
			}
			if len(c) > 0 {
				d := c[g.r.Intn(len(c))]
				ft = d.name
				if d.depth+1 > t.depth {
					t.depth = d.depth + 1
				}
				if t.depth >= 2 {
					t.nontriv = true
				}
			} else {
				ft = "string"
			}
		case 11:
			if d := g.pick("generic"); d != nil {
				ft = d.inst
				t.nontriv = true
			} else {
				ft = "[]string"
			}
		case 12:
			ft = "[]string"
			if d := g.pick("named-scalar"); d != nil {
				switch g.r.Intn(4) {
				case 0:
					ft = "[]" + d.name
				case 1:
					ft = "map[string]" + d.name
				case 2:
					ft = "[2]" + d.name
				}
			}
			t.nontriv = true
		default:
			ft = "map[string]string"
			t.nontriv = true
		}
		fmt.Fprintf(&b, "\t%s %s\n", fn, ft)
	}
	b.WriteString("}\n\n")
	t.src = b.String()
	t.inst = t.name
	return t
}

func (g *gen) generate(pkg string) string {
	g.perT = g.r.Intn(2) == 0
	var b strings.Builder
	if !g.perT {
		b.WriteString("// +gengo:deepcopy\n")
	}
	fmt.Fprintf(&b, "package %s\n\nimport (\n\t\"fmt\"\n\t\"io\"\n\t\"time\"\n)\n\nvar (\n\t_ fmt.Stringer\n\t_ io.Reader\n\t_ time.Duration\n)\n\n", pkg)
	g.extra = map[string]*strings.Builder{}
	add := func(d *tdecl) {
		g.decls = append(g.decls, d)
		k := g.r.Intn(6)
		if k == 0 {
			b.WriteString(d.src)
			return
		}
		fn := fmt.Sprintf("types_%d.go", k)
		eb := g.extra[fn]
		if eb == nil {
			eb = &strings.Builder{}
			fmt.Fprintf(eb, "package %s\n\nimport (\n\t\"fmt\"\n\t\"io\"\n\t\"time\"\n)\n\nvar (\n\t_ fmt.Stringer\n\t_ io.Reader\n\t_ time.Duration\n)\n\n", pkg)
			g.extra[fn] = eb
		}
		eb.WriteString(d.src)
	}
	// named scalars and maps
	for i := 0; i < 2; i++ {
		d := &tdecl{name: g.name("MyScalar"), kind: "named-scalar"}
		d.src = g.tagLine(d, false) + fmt.Sprintf("type %s %s\n\n", d.name, []string{"int", "string", "float64", "uint8", "bool"}[g.r.Intn(5)])
		d.inst = d.name
		add(d)
	}
	for i := 0; i < 2; i++ {
		d := &tdecl{name: g.name("MyMap"), kind: "named-map", nontriv: true}
		key := "string"
		if i == 1 {
			key = g.decls[0].name
			if strings.Contains(g.decls[0].src, "bool") {
				key = "int"
			}
		}
		d.src = g.tagLine(d, false) + fmt.Sprintf("type %s map[%s]%s\n\n", d.name, key, []string{"int", "string", "float64"}[g.r.Intn(3)])
		d.inst = d.name
		add(d)
	}
	// same-package interface types: a named empty interface and one with a method (time.Duration implements it)
	if g.r.Intn(3) != 0 {
		for i, body := range []string{"interface{}", "interface {\n\tString() string\n}"} {
			if i == 1 && g.r.Intn(2) == 0 {
				continue
			}
			d := &tdecl{name: g.name([]string{"AnyIface", "StrIface"}[i]), kind: "iface"}
			b.WriteString(g.tagLine(d, g.r.Intn(2) == 0) + fmt.Sprintf("type %s %s\n\n", d.name, body))
			g.ifaceTypes = append(g.ifaceTypes, d.name)
			g.ifaceDecls++
		}
	}
	// generic structs with bare type-parameter fields
	if g.r.Intn(3) != 0 {
		// the generic type's name sorts before or after the structs that hold its instantiations (dispatch is by
		// sorted name: the holder may be generated first and pull the generic in as a dependency), and type
		// arguments are scalars or same-package defined scalars
		gp := []string{"Gen", "ZGen"}[g.r.Intn(2)]
		scalarArg := func(opts []string) string {
			if g.r.Intn(2) == 0 {
				if ns := g.pick("named-scalar"); ns != nil {
					return ns.name
				}
			}
			return opts[g.r.Intn(len(opts))]
		}
		d := &tdecl{name: g.name(gp), kind: "generic", nontriv: true, tparams: 1}
		d.src = g.tagLine(d, false) + fmt.Sprintf("type %s[T any] struct {\n\tV T\n\tN int\n\tL []int\n}\n\n", d.name)
		d.inst = d.name + "[" + scalarArg([]string{"int", "string", "float64"}) + "]"
		add(d)
		d2 := &tdecl{name: g.name([]string{"Pair", "ZPair"}[g.r.Intn(2)]), kind: "generic", nontriv: true, tparams: 2}
		d2.src = g.tagLine(d2, false) + fmt.Sprintf("type %s[K comparable, V any] struct {\n\tKey K\n\tVal V\n\tM map[string]int\n}\n\n", d2.name)
		d2.inst = d2.name + "[string, " + scalarArg([]string{"int", "bool", "uint8"}) + "]"
		add(d2)
	}
	ns := 3 + g.r.Intn(6)
	for i := 0; i < ns; i++ {
		add(g.structDecl(3))
	}
	// a holder that sorts BEFORE the structs it holds by value (dispatch is by sorted name: they are then generated as
	// its dependencies, in the order the generator walks them) - several distinct ones, declared in different files
	var held []*tdecl
	for _, d := range g.decls {
		if d.kind == "struct" && d.depth < 3 {
			held = append(held, d)
		}
	}
	if len(held) >= 2 {
		g.r.Shuffle(len(held), func(i, j int) { held[i], held[j] = held[j], held[i] })
		if len(held) > 5 {
			held = held[:5]
		}
		t := &tdecl{name: g.name("AAHolder"), kind: "struct", nontriv: true}
		var hb strings.Builder
		hb.WriteString(g.tagLine(t, false))
		fmt.Fprintf(&hb, "type %s struct {\n\tL []int\n", t.name)
		for i, d := range held {
			fmt.Fprintf(&hb, "\tH%d %s\n", i, d.name)
			if d.depth+1 > t.depth {
				t.depth = d.depth + 1
			}
		}
		hb.WriteString("}\n\n")
		t.src = hb.String()
		t.inst = t.name
		add(t)
		g.holders++
	}
	return b.String()
}

const helpers = `
type c17rng struct{ s uint64 }

func (r *c17rng) next() uint64 {
	r.s = r.s*6364136223846793005 + 1442695040888963407
	return r.s >> 11
}

func c17fill(r *c17rng, v reflect.Value, depth int) {
	switch v.Kind() {
	case reflect.Bool:
		v.SetBool(r.next()%2 == 0)
	case reflect.Int, reflect.Int8, reflect.Int16, reflect.Int32, reflect.Int64:
		v.SetInt(int64(r.next()%100) + 1)
	case reflect.Uint, reflect.Uint8, reflect.Uint16, reflect.Uint32, reflect.Uint64, reflect.Uintptr:
		v.SetUint(r.next()%100 + 1)
	case reflect.Float32, reflect.Float64:
		v.SetFloat(float64(r.next()%1000) / 8)
	case reflect.Complex64, reflect.Complex128:
		v.SetComplex(complex(float64(r.next()%10), 1))
	case reflect.String:
		v.SetString(fmt.Sprintf("s%d", r.next()%1000))
	case reflect.Slice:
		switch r.next() % 6 {
		case 0:
			return
		case 1:
			// allocated but empty: the copy must be empty and non-nil too (reflect.DeepEqual tells them apart)
			v.Set(reflect.MakeSlice(v.Type(), 0, int(r.next()%3)))
			return
		}
		n := int(r.next()%3) + 1
		s := reflect.MakeSlice(v.Type(), n, n+int(r.next()%3))
		for i := 0; i < n; i++ {
			c17fill(r, s.Index(i), depth+1)
		}
		v.Set(s)
	case reflect.Array:
		for i := 0; i < v.Len(); i++ {
			c17fill(r, v.Index(i), depth+1)
		}
	case reflect.Map:
		switch r.next() % 6 {
		case 0:
			return
		case 1:
			v.Set(reflect.MakeMap(v.Type()))
			return
		}
		m := reflect.MakeMap(v.Type())
		n := int(r.next()%3) + 1
		for i := 0; i < n; i++ {
			k := reflect.New(v.Type().Key()).Elem()
			c17fill(r, k, depth+1)
			e := reflect.New(v.Type().Elem()).Elem()
			c17fill(r, e, depth+1)
			m.SetMapIndex(k, e)
		}
		v.Set(m)
	case reflect.Struct:
		if v.Type() == reflect.TypeOf(time.Time{}) {
			v.Set(reflect.ValueOf(time.Unix(int64(r.next()%100000), 0)))
			return
		}
		for i := 0; i < v.NumField(); i++ {
			if v.Type().Field(i).Name == "_" {
				continue // a blank field cannot be named, hence neither set nor copied: it stays zero
			}
			f := v.Field(i)
			if !f.CanSet() {
				f = reflect.NewAt(f.Type(), unsafe.Pointer(f.UnsafeAddr())).Elem()
			}
			c17fill(r, f, depth+1)
		}
	case reflect.Interface:
		switch r.next() % 3 {
		case 0:
			return
		}
		var x any
		switch {
		case v.Type() == reflect.TypeOf((*error)(nil)).Elem():
			x = errors.New("e")
		case v.Type() == reflect.TypeOf((*io.Reader)(nil)).Elem():
			x = strings.NewReader("r")
		case v.Type() == reflect.TypeOf((*fmt.Stringer)(nil)).Elem():
			x = time.Second
		default:
			x = int(r.next() % 50)
		}
		if !reflect.TypeOf(x).Implements(v.Type()) {
			x = time.Duration(r.next() % 50)
			if !reflect.TypeOf(x).Implements(v.Type()) {
				return
			}
		}
		v.Set(reflect.ValueOf(x))
	}
}

// c17clone: an independent deep clone by reflection (interfaces are copied as they are).
func c17clone(v reflect.Value) reflect.Value {
	out := reflect.New(v.Type()).Elem()
	c17copy(out, v)
	return out
}

func c17w(f reflect.Value) reflect.Value {
	if f.CanSet() {
		return f
	}
	return reflect.NewAt(f.Type(), unsafe.Pointer(f.UnsafeAddr())).Elem()
}

func c17copy(dst, src reflect.Value) {
	switch src.Kind() {
	case reflect.Slice:
		if src.IsNil() {
			return
		}
		s := reflect.MakeSlice(src.Type(), src.Len(), src.Len())
		for i := 0; i < src.Len(); i++ {
			c17copy(s.Index(i), src.Index(i))
		}
		dst.Set(s)
	case reflect.Map:
		if src.IsNil() {
			return
		}
		m := reflect.MakeMap(src.Type())
		for _, k := range src.MapKeys() {
			e := reflect.New(src.Type().Elem()).Elem()
			c17copy(e, src.MapIndex(k))
			m.SetMapIndex(k, e)
		}
		dst.Set(m)
	case reflect.Array:
		for i := 0; i < src.Len(); i++ {
			c17copy(dst.Index(i), src.Index(i))
		}
	case reflect.Struct:
		if src.Type() == reflect.TypeOf(time.Time{}) {
			dst.Set(src)
			return
		}
		for i := 0; i < src.NumField(); i++ {
			c17copy(c17w(dst.Field(i)), c17w(src.Field(i)))
		}
	default:
		dst.Set(src)
	}
}

// c17mutate appends to / assigns into every slice and map reachable through by-value nesting.
func c17mutate(v reflect.Value) int {
	n := 0
	switch v.Kind() {
	case reflect.Slice:
		if v.Len() > 0 {
			e := v.Index(0)
			z := reflect.New(e.Type()).Elem()
			r := &c17rng{s: 99}
			c17fill(r, z, 0)
			if reflect.DeepEqual(z.Interface(), e.Interface()) {
				c17fill(r, z, 0)
			}
			e.Set(z)
			n++
		}
		if v.CanSet() {
			// appending within the capacity writes into the shared backing array, if there is one
			v.Set(reflect.Append(v, reflect.New(v.Type().Elem()).Elem()))
			n++
		}
	case reflect.Map:
		if !v.IsNil() {
			r := &c17rng{s: 77}
			for _, k := range v.MapKeys() {
				e := reflect.New(v.Type().Elem()).Elem()
				c17fill(r, e, 0)
				if reflect.DeepEqual(e.Interface(), v.MapIndex(k).Interface()) {
					c17fill(r, e, 0)
				}
				v.SetMapIndex(k, e)
				n++
			}
			k := reflect.New(v.Type().Key()).Elem()
			c17fill(&c17rng{s: 12345}, k, 0)
			v.SetMapIndex(k, reflect.New(v.Type().Elem()).Elem())
			n++
		}
	case reflect.Array:
		for i := 0; i < v.Len(); i++ {
			n += c17mutate(v.Index(i))
		}
	case reflect.Struct:
		if v.Type() == reflect.TypeOf(time.Time{}) {
			return 0
		}
		for i := 0; i < v.NumField(); i++ {
			n += c17mutate(c17w(v.Field(i)))
		}
	}
	return n
}
`

func testFile(pkg string, decls []*tdecl) string {
	var b strings.Builder
	fmt.Fprintf(&b, "package %s\n\nimport (\n\t\"errors\"\n\t\"fmt\"\n\t\"io\"\n\t\"reflect\"\n\t\"strings\"\n\t\"testing\"\n\t\"time\"\n\t\"unsafe\"\n)\n\nvar _ = errors.New\nvar _ io.Reader\nvar _ = strings.NewReader\n", pkg)
	b.WriteString(helpers)
	b.WriteString("\nfunc TestC17DeepCopy(t *testing.T) {\n")
	for i, d := range decls {
		T := d.inst
		fmt.Fprintf(&b, "\t// %s\n\t{\n", T)
		if d.kind == "named-map" {
			fmt.Fprintf(&b, "\t\tvar nilm %s\n\t\tif nilm.DeepCopy() != nil {\n\t\t\tfmt.Printf(\"C17MISMATCH %d nil map copy is not nil\\n\")\n\t\t}\n", T, i)
			fmt.Fprintf(&b, "\t\tfor seed := uint64(1); seed <= 6; seed++ {\n\t\t\torig := new(%s)\n\t\t\tc17fill(&c17rng{s: seed}, reflect.ValueOf(orig).Elem(), 0)\n\t\t\tif *orig == nil {\n\t\t\t\tcontinue\n\t\t\t}\n\t\t\tsnap := c17clone(reflect.ValueOf(orig).Elem()).Interface()\n", T)
			fmt.Fprintf(&b, "\t\t\tcp := orig.DeepCopy()\n\t\t\tif !reflect.DeepEqual(cp, *orig) {\n\t\t\t\tfmt.Printf(\"C17MISMATCH %d copy %%v differs from original %%v\\n\", cp, *orig)\n\t\t\t}\n", i)
			fmt.Fprintf(&b, "\t\t\tcv := reflect.ValueOf(&cp).Elem()\n\t\t\tc17mutate(cv)\n\t\t\tif !reflect.DeepEqual(*orig, snap) {\n\t\t\t\tfmt.Printf(\"C17MISMATCH %d mutating the copy changed the original: now %%v, was %%v\\n\", *orig, snap)\n\t\t\t}\n\t\t}\n", i)
		} else {
			fmt.Fprintf(&b, "\t\tvar nilp *%s\n\t\tif nilp.DeepCopy() != nil {\n\t\t\tfmt.Printf(\"C17MISMATCH %d DeepCopy of nil is not nil\\n\")\n\t\t}\n", T, i)
			if d.ifaces {
				// the copy through the object interface: nil stays nil (a nil interface, not a typed nil pointer inside one)
				fmt.Fprintf(&b, "\t\tif o := nilp.DeepCopyObject(); o != nil {\n\t\t\tfmt.Printf(\"C17MISMATCH %d DeepCopy of nil is not nil through DeepCopyObject: %%#v\\n\", o)\n\t\t}\n", i)
			}
			fmt.Fprintf(&b, "\t\tfor seed := uint64(1); seed <= 6; seed++ {\n\t\t\torig := new(%s)\n\t\t\tc17fill(&c17rng{s: seed}, reflect.ValueOf(orig).Elem(), 0)\n\t\t\tsnap := c17clone(reflect.ValueOf(orig).Elem()).Interface()\n", T)
			if d.ifaces {
				fmt.Fprintf(&b, "\t\t\tif o, ok := orig.DeepCopyObject().(*%s); !ok || o == nil || !reflect.DeepEqual(*o, *orig) {\n\t\t\t\tfmt.Printf(\"C17MISMATCH %d DeepCopyObject %%+v differs from original %%+v\\n\", o, *orig)\n\t\t\t}\n", T, i)
			}
			fmt.Fprintf(&b, "\t\t\tcp := orig.DeepCopy()\n\t\t\tif cp == nil || !reflect.DeepEqual(*cp, *orig) {\n\t\t\t\tfmt.Printf(\"C17MISMATCH %d DeepCopy %%+v differs from original %%+v\\n\", cp, *orig)\n\t\t\t\tcontinue\n\t\t\t}\n", i)
			fmt.Fprintf(&b, "\t\t\tvar into %s\n\t\t\torig.DeepCopyInto(&into)\n\t\t\tif !reflect.DeepEqual(into, *orig) {\n\t\t\t\tfmt.Printf(\"C17MISMATCH %d DeepCopyInto %%+v differs from original %%+v\\n\", into, *orig)\n\t\t\t}\n", T, i)
			fmt.Fprintf(&b, "\t\t\tn := c17mutate(reflect.ValueOf(cp).Elem()) + c17mutate(reflect.ValueOf(&into).Elem())\n\t\t\tif !reflect.DeepEqual(*orig, snap) {\n\t\t\t\tfmt.Printf(\"C17MISMATCH %d after %%d mutations of the copies the original changed: now %%+v, was %%+v\\n\", n, *orig, snap)\n\t\t\t}\n\t\t\tfmt.Printf(\"C17MUT %%d\\n\", n)\n\t\t}\n", i)
		}
		b.WriteString("\t}\n")
	}
	fmt.Fprintf(&b, "\tfmt.Printf(\"C17DONE %s\\n\")\n}\n", pkg)
	return b.String()
}

var mismatchRe = regexp.MustCompile(`C17MISMATCH (\d+) (.*)`)
var mutRe = regexp.MustCompile(`C17MUT (\d+)`)

func (p *prop) runBatch(c core.Case, w *core.Worker, res *core.Result, r *rand.Rand, n int) {
	m, err := fixture.New(w.Scratch, fmt.Sprintf("c17-%d", c.ID), mod, "1.24")
	if err != nil {
		res.Inconclusive = append(res.Inconclusive, err.Error())
		return
	}
	defer m.Remove()
	m.MustWrite("rt/rt.go", "package rt\n\ntype Object interface {\n\tDeepCopyObject() Object\n}\n")
	type pk struct {
		name  string
		src   string
		decls []*tdecl
	}
	var pks []pk
	var entries []string
	for i := 0; i < n; i++ {
		g := &gen{r: r}
		name := fmt.Sprintf("q%d", i)
		src := g.generate(name)
		pks = append(pks, pk{name, src, g.decls})
		res.Count("same_package_interface_types_declared", int64(g.ifaceDecls))
		m.MustWrite(filepath.Join(name, "types.go"), src)
		for fn, eb := range g.extra {
			m.MustWrite(filepath.Join(name, fn), eb.String())
			pks[len(pks)-1].src += "\n// ---- " + fn + "\n" + eb.String()
			res.Inc("extra_source_files_per_package")
		}
		res.Count("holders_sorting_before_their_dependencies", int64(g.holders))
		res.Count("declarations_tagged_in_a_block_comment", int64(g.blockTags))
		entries = append(entries, "./"+name)
	}
	gens := []specgen.GenSpec{{Name: "deepcopy", Real: true}}
	args := specgen.Args{Entrypoint: entries, OutputFileBaseName: "zz_generated"}
	run1 := specgen.RunInProcess(m.Root, args, gens)
	res.Inc("gengo_runs")
	if run1.Failed {
		res.Fail("execute", "execute-error", "Execute(deepcopy) failed: "+clip(run1.Err+run1.Panic, 1500), nil)
		return
	}
	first := map[string]string{}
	for _, pkk := range pks {
		first[pkk.name], _ = m.Read(filepath.Join(pkk.name, "zz_generated.deepcopy.go"))
	}
	run2 := specgen.RunInProcess(m.Root, args, gens)
	res.Inc("gengo_runs")
	for _, pkk := range pks {
		second, _ := m.Read(filepath.Join(pkk.name, "zz_generated.deepcopy.go"))
		res.Inc("first_vs_second_run_files_compared")
		if run2.Failed {
			res.Fail("second-run", "execute-error", "the second run failed: "+clip(run2.Err+run2.Panic, 1200), nil)
			break
		}
		if second != first[pkk.name] {
			res.Fail("same-on-later-runs", "run1 != run2", fmt.Sprintf("package %s: the generated file differs between the first and the second run:\n%s\n--- source:\n%s", pkk.name, lineDiff(first[pkk.name], second), clip(pkk.src, 1500)), nil)
		}
	}
	for _, pkk := range pks {
		m.MustWrite(filepath.Join(pkk.name, "c17_test.go"), testFile(pkk.name, pkk.decls))
		cmd := exec.Command("go", "test", "-v", "-count=1", "-vet=off", "-run", "TestC17DeepCopy", "./"+pkk.name)
		cmd.Dir = m.Root
		cmd.Env = append(os.Environ(), "GOFLAGS=-mod=mod")
		var ob bytes.Buffer
		cmd.Stdout, cmd.Stderr = &ob, &ob
		err := cmd.Run()
		out := ob.String()
		res.Inc("compiled_test_programs")
		if !strings.Contains(out, "C17DONE "+pkk.name) {
			gen, _ := m.Read(filepath.Join(pkk.name, "zz_generated.deepcopy.go"))
			res.Fail("compiles-and-runs", compileKey(out), fmt.Sprintf("package %s: the generated code does not compile / the test did not finish (%v):\n%s\n--- source:\n%s\n--- generated (head):\n%s", pkk.name, err, clip(out, 1500), clip(pkk.src, 2000), clip(gen, 800)), nil)
			continue
		}
		bad := map[int]string{}
		for _, mm := range mismatchRe.FindAllStringSubmatch(out, -1) {
			var i int
			fmt.Sscanf(mm[1], "%d", &i)
			if _, ok := bad[i]; !ok {
				bad[i] = mm[2]
			}
		}
		for _, mm := range mutRe.FindAllStringSubmatch(out, -1) {
			var k int64
			fmt.Sscanf(mm[1], "%d", &k)
			res.Count("container_mutations_applied_to_copies", k)
		}
		for i, d := range pkk.decls {
			res.Evals++
			if d.nontriv {
				res.NonTrivial(strings.ReplaceAll(d.src, d.name, "T"))
			}
			res.Inc("type_" + d.kind)
			if msg, ok := bad[i]; ok {
				oracle := "copy-semantics"
				if strings.Contains(msg, "changed the original") || strings.Contains(msg, "the original changed") {
					oracle = "no-sharing"
				} else if strings.Contains(msg, "nil") {
					oracle = "nil-copy"
				}
				res.Fail(oracle, d.kind, fmt.Sprintf("package %s type %s: %s\n--- declaration:\n%s", pkk.name, d.inst, clip(msg, 700), d.src), nil)
			}
		}
	}
	if len(pks) > 0 {
		d := pks[0].decls[len(pks[0].decls)-1]
		res.Sample(map[string]any{"type": d.inst, "declaration": d.src, "nesting_depth": d.depth}, 1)
	}
}

func compileKey(out string) string {
	for _, l := range strings.Split(out, "\n") {
		if i := strings.Index(l, ".go:"); i >= 0 {
			parts := strings.SplitN(l[i:], ": ", 2)
			if len(parts) == 2 {
				msg := parts[1]
				msg = regexp.MustCompile(`[A-Za-z_]+\d+`).ReplaceAllString(msg, "X")
				return clip(msg, 80)
			}
		}
	}
	return "go test"
}

func lineDiff(a, b string) string {
	al, bl := strings.Split(a, "\n"), strings.Split(b, "\n")
	for i := 0; i < min(len(al), len(bl)); i++ {
		if al[i] != bl[i] {
			return fmt.Sprintf("line %d: first run %q, second run %q", i+1, al[i], bl[i])
		}
	}
	return fmt.Sprintf("%d vs %d lines", len(al), len(bl))
}

func clip(s string, n int) string {
	if len(s) <= n {
		return s
	}
	return s[:n] + "…"
}

func (p *prop) Run(c core.Case, w *core.Worker) core.Result {
	res := core.Result{CaseID: c.ID}
	var pa params
	c.Decode(&pa)
	r := rand.New(rand.NewSource(c.Seed))
	p.runBatch(c, w, &res, r, pa.N)
	return res
}
