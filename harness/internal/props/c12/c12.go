// Package c12: doc comments, trailing comments and tags are attributed to the right declaration.
package c12

import (
	"fmt"
	"go/token"
	"go/types"
	"math/rand"
	"reflect"
	"sort"
	"strings"

	"github.com/octohelm/gengo/pkg/gengo"
	gengotypes "github.com/octohelm/gengo/pkg/types"

	"verif/internal/core"
	"verif/internal/fixture"
	"verif/internal/pipeline"
)

func init() { core.Register(&prop{}) }

type prop struct{}

func (*prop) ID() string    { return "C12" }
func (*prop) Level() string { return "exploration" }
func (*prop) Rule() string {
	return "source files are generated from a layout grammar: sequences of type specs (grouped / ungrouped), struct fields (single, multi-name, embedded), const and var specs (grouped / ungrouped), each with doc in {none, 1-3 line comments (optionally with one interior blank comment line), one-line block comment, multi-line block comment, lines mixed with tag lines, tag lines only, detached by a blank line} x trailing in {none, line comment, block comment}, " +
		"so that every adjacency occurs (trailing comment on line L and an undocumented declaration on L+1; a trailing comment on the last line of a multi-line declaration - `} // c` after a struct or composite literal, a continued const expression - directly above an undocumented declaration; doc then trailing; detached comment then declaration ...). Every comment carries a unique marker. The files are loaded with the real types.Load and every object is resolved through the type checker's scope; " +
		"Doc(pos) and Comment(pos) are compared with the expectation derived from the layout the harness wrote (not from go/ast). Separately ExtractCommentTags is run on generated line lists (default and custom markers; keys with '=' / space / neither; repeated keys; leading/trailing spaces; empty key) against a reference splitter written from the statement. " +
		"Non-trivial = a declaration whose previous line carries a trailing comment, or which has a doc with tag lines, or a detached comment; distinct by hash of (declaration kind, doc shape, trailing shape, previous line's trailing shape, position in group)."
}
func (*prop) Assumptions() []string {
	return []string{
		"comment text avoids go: prefixes, tabs, leading / trailing / consecutive blank comment lines and trailing blanks (go/ast's Text() normalises those; not part of the statement); single interior blank lines are generated and expected back as \"\"",
		"multi-line block comments are written unindented; for a trailing comment on the LAST line of a multi-line declaration Comment() may return it or nothing (the statement speaks of the declaration's own line; go/ast attaches it to the declaration) - but it must never be the next declaration's Doc()",
		"trusted: go list / go/packages to load the scratch module, go/types scopes to find the objects",
	}
}
func (*prop) MinDistinct(tier string) int64 {
	if tier == "thorough" {
		return 1500
	}
	return 300
}

type params struct {
	Pkgs  int `json:"pkgs"`
	Decls int `json:"decls"`
	N     int `json:"n"`
}

func (*prop) Cases(seed int64, tier string) []core.Case {
	loads, pk, dc := 24, 5, 30
	tagN := 6000
	if tier == "thorough" {
		loads, pk, dc = 256, 10, 60
		tagN = 60000
	}
	var cs []core.Case
	for i := 0; i < loads; i++ {
		cs = append(cs, core.MkCase("layout", params{Pkgs: pk, Decls: dc}))
	}
	for i := 0; i < 8; i++ {
		cs = append(cs, core.MkCase("tags", params{N: tagN}))
	}
	return cs
}

// ---------------------------------------------------------------------------------------
// layout generator

type expect struct {
	Pkg      string              `json:"pkg"`
	File     string              `json:"file"`
	Kind     string              `json:"kind"` // type | field | const | var
	Owner    string              `json:"owner,omitempty"`
	Name     string              `json:"name"`
	Doc      []string            `json:"doc"`
	Tags     map[string][]string `json:"tags"`
	Trailing []string            `json:"trailing"`
	// AltTrailing: a second acceptable Comment() answer (the trailing comment on the LAST line of a multi-line
	// declaration: go/ast attaches it to the declaration, the statement speaks of "the declaration's own line")
	AltTrailing []string `json:"alt_trailing,omitempty"`
	Shape    string              `json:"shape"`
	Line     int                 `json:"line"`
}

type gen struct {
	r      *rand.Rand
	b      *strings.Builder
	line   int
	marker int
	pkg    string
	file   string
	out    []*expect
	// trailing shape of the previous emitted source line ("" if none / not a declaration line)
	prevTrailing string
	nameN        int
	nameHint     string
	pendingNote  string
	// lineDirectives: //line directives emitted so far (per generator: unique target names)
	lineDirectives int
	last         []*expect
}

func (g *gen) emit(s string) {
	g.b.WriteString(s)
	g.b.WriteString("\n")
	g.line++
}

func (g *gen) mark() string {
	g.marker++
	return fmt.Sprintf("m%d%s", g.marker, []string{"", " text", " with 'quotes' and \"dq\"", " 世界", " a=b +c @d",
		// prose that LOOKS like a directive (word:word without a space): only //go: lines are directives
		":8080 is the default", ":port form", ":x"}[g.r.Intn(8)])
}

func (g *gen) name(prefix string) string {
	g.nameN++
	if h := g.nameHint; h != "" {
		// the declaration is named after the first word of its own doc comment ("m12 text" documents m12), the
		// godoc convention that gengo's Context.Doc relies on when it strips the leading name
		g.nameHint = ""
		return h
	}
	return fmt.Sprintf("%s%d", prefix, g.nameN)
}

type docResult struct {
	lines []string
	tags  map[string][]string
	shape string
}

// doc emits a documentation comment (or none / detached) with indentation ind.
func (g *gen) doc(ind string, allowMultiBlock bool) docResult {
	res := docResult{tags: map[string][]string{}}
	shape := g.r.Intn(8)
	if shape == 3 && !allowMultiBlock {
		shape = 2
	}
	switch shape {
	case 0:
		res.shape = "none"
	case 1:
		res.shape = "line"
		n := 1 + g.r.Intn(3)
		blankAt := -1
		if n == 3 && g.r.Intn(2) == 0 {
			blankAt = 1
		}
		for i := 0; i < n; i++ {
			if i == blankAt {
				g.emit(ind + "//")
				res.lines = append(res.lines, "")
				res.shape = "line+blank"
				continue
			}
			m := g.mark()
			g.emit(ind + "// " + m)
			res.lines = append(res.lines, m)
		}
	case 2:
		res.shape = "block1"
		m := g.mark()
		g.emit(ind + "/* " + m + " */")
		res.lines = append(res.lines, m)
	case 3:
		res.shape = "blockN"
		m1, m2 := g.mark(), g.mark()
		g.emit("/*")
		g.emit(m1)
		g.emit(m2)
		g.emit("*/")
		res.lines = append(res.lines, m1, m2)
	case 4, 6:
		res.shape = "line+tags"
		n := 2 + g.r.Intn(3)
		for i := 0; i < n; i++ {
			if g.r.Intn(2) == 0 || (shape == 6) {
				k := fmt.Sprintf("k%d", g.r.Intn(3))
				v := g.mark()
				switch g.r.Intn(8) {
				case 0:
					v = `"` + v + `"` // a quoted value stays quoted
				case 1:
					v = "`" + v + `\t` + "`"
				case 2:
					v = `'x'`
				}
				marker := "+"
				if g.r.Intn(3) == 0 {
					marker = "@"
				}
				switch g.r.Intn(3) {
				case 0:
					g.emit(ind + "// " + marker + k + "=" + v)
					res.tags[k] = append(res.tags[k], v)
				case 1:
					g.emit(ind + "// " + marker + k + " " + v)
					res.tags[k] = append(res.tags[k], v)
				default:
					g.emit(ind + "// " + marker + k)
					res.tags[k] = append(res.tags[k], "")
				}
			} else {
				m := g.mark()
				g.emit(ind + "// " + m)
				res.lines = append(res.lines, m)
			}
		}
		if shape == 6 {
			res.shape = "tags-only"
		}
	case 5:
		res.shape = "detached"
		g.emit(ind + "// " + g.mark())
		g.emit("")
	case 7:
		res.shape = "detached-block"
		g.emit(ind + "/* " + g.mark() + " */")
		g.emit("")
	}
	g.nameHint = ""
	if len(res.lines) > 0 && g.r.Intn(3) == 0 {
		if w := strings.Fields(res.lines[0]); len(w) > 0 && token.IsIdentifier(w[0]) {
			g.nameHint = w[0]
		}
	}
	return res
}

// openNote: a comment on the line that OPENS a struct body or a declaration group ("type T struct { // note",
// "const ( // note"): the parser attaches it to no node; it documents nothing - in particular not the first member,
// which sits on the next line.
func (g *gen) openNote() string {
	if g.r.Intn(3) != 0 {
		return ""
	}
	g.prevTrailing = "open-line-note"
	if g.r.Intn(4) == 0 {
		return " /* " + g.mark() + " */"
	}
	return " // " + g.mark()
}

// trailing returns the text to append to a declaration line and the expectation.
func (g *gen) trailing() (string, []string, string) {
	switch g.r.Intn(4) {
	case 0:
		m := g.mark()
		return " // " + m, []string{m}, "line"
	case 1:
		m := g.mark()
		return " /* " + m + " */", []string{m}, "block"
	}
	return "", nil, "none"
}

func (g *gen) record(kind, owner string, names []string, d docResult, tr []string, trShape string, posInGroup string) []*expect {
	var es []*expect
	defer func() { g.last = es }()
	for _, n := range names {
		e := &expect{Pkg: g.pkg, File: g.file, Kind: kind, Owner: owner, Name: n, Doc: d.lines, Tags: d.tags, Trailing: tr, Line: g.line,
			Shape: fmt.Sprintf("%s|doc=%s|trail=%s|prev=%s|%s", kind, d.shape, trShape, g.prevTrailing, posInGroup)}
		g.out = append(g.out, e)
		es = append(es, e)
	}
	return es
}

var scalarTypes = []string{"int", "string", "bool", "float64", "[]byte", "map[string]int", "func(e int, s string) error", "struct{ X, Y int }", "func() (n int, err error)", "interface{ M(a int) }"}

// embeddable: types declared in emb.go of every generated package; each may be embedded once per struct
var embeddable = []string{"EmbA", "*EmbB", "EmbC", "EmbD"}

const embFile = "package %s\n\ntype (\n\tEmbA struct{}\n\tEmbB struct{}\n\tEmbC int\n\tEmbD interface{ Q() }\n)\n"

func (g *gen) fields(owner string) { g.fieldsAt(owner, "\t", 0) }

// fieldsAt emits the field list of a struct at indentation ind; owner is the path of field names from the declared
// type down to this struct ("S3", "S3/F7" for the anonymous struct type of field F7 of S3).
// openNoteText / noteShape: the note is decided when the opening line is written, its shape key is applied to the
// first member afterwards (record() reads g.prevTrailing)
// groupDoc: a doc comment on a parenthesised declaration group ("// doc\nconst (\n\tA = 1\n)"). It documents the group,
// which is no declaration of the statement's kinds; it ends two lines above the first member, so it is no member's
// doc - not even when the group has exactly one member.
func (g *gen) groupDoc() bool {
	if g.r.Intn(3) != 0 {
		return false
	}
	g.emit("// " + g.mark())
	if g.r.Intn(2) == 0 {
		g.emit("// +groupTag=" + g.mark())
	}
	return true
}

func (g *gen) openNoteText() string {
	g.pendingNote = g.openNote()
	return g.pendingNote
}

func (g *gen) noteShape() string {
	if g.pendingNote != "" {
		g.pendingNote = ""
		return "open-line-note"
	}
	return ""
}

func (g *gen) fieldsAtAfterNote(owner, ind string, depth int) {
	g.fieldsAtWith(owner, ind, depth, g.noteShape())
}

func (g *gen) fieldsAt(owner, ind string, depth int) { g.fieldsAtWith(owner, ind, depth, "") }

func (g *gen) fieldsAtWith(owner, ind string, depth int, firstPrev string) {
	n := 1 + g.r.Intn(6)
	g.prevTrailing = firstPrev
	embLeft := append([]string(nil), embeddable...)
	for i := 0; i < n; i++ {
		d := g.doc(ind, false)
		if d.shape != "none" {
			// a doc comment line breaks the adjacency with the previous trailing comment
			if d.shape != "detached" && d.shape != "detached-block" {
			}
		}
		if d.shape == "detached" || d.shape == "detached-block" {
			d.lines, d.tags = nil, map[string][]string{}
		}
		tr, trl, trs := g.trailing()
		prev := g.prevTrailing
		if d.shape != "none" {
			g.prevTrailing = ""
		}
		_ = prev
		var names []string
		switch pick := g.r.Intn(6); {
		case pick == 0:
			names = []string{g.name("F"), g.name("G")}
			g.emit(ind + strings.Join(names, ", ") + " " + scalarTypes[g.r.Intn(len(scalarTypes))] + tr)
		case pick == 2 && len(embLeft) > 0:
			// an embedded field (no name list in the syntax; the field is named after its type): doc above, trailing
			// comment on its line - and the field below it must not inherit that trailing comment (seeded change C12-l)
			k := g.r.Intn(len(embLeft))
			spell := embLeft[k]
			embLeft = append(embLeft[:k], embLeft[k+1:]...)
			names = []string{strings.TrimPrefix(spell, "*")}
			g.emit(ind + spell + tr)
			kindPos := fmt.Sprintf("i%d|embedded", min(i, 2))
			if depth > 0 {
				kindPos += fmt.Sprintf("|nested-depth-%d", depth)
			}
			g.record("field", owner, names, d, trl, trs, kindPos)
			g.prevTrailing = trs
			if trs != "none" {
				g.prevTrailing = "embedded-" + trs
			}
			continue
		case pick == 1 && depth < 2:
			// a field whose type is (built from) a multi-line anonymous struct: its own fields are documented too
			names = []string{g.name("N")}
			g.emit(ind + names[0] + " " + []string{"", "*", "[]", "map[string]", "[2]"}[g.r.Intn(5)] + "struct {" + g.openNoteText())
			es := g.record("field", owner, names, d, nil, "none", fmt.Sprintf("i%d", min(i, 2))+"|nested-struct")
			g.fieldsAtAfterNote(owner+"/"+names[0], ind+"\t", depth+1)
			if g.r.Intn(2) == 0 {
				mk := g.mark()
				g.emit(ind + "} // " + mk)
				for _, e := range es {
					e.AltTrailing = []string{mk}
				}
				g.prevTrailing = "line-after-multiline"
			} else {
				g.emit(ind + "}")
				g.prevTrailing = ""
			}
			continue
		default:
			names = []string{g.name("F")}
			g.emit(ind + names[0] + " " + scalarTypes[g.r.Intn(len(scalarTypes))] + tr)
		}
		kindPos := fmt.Sprintf("i%d", min(i, 2))
		if depth > 0 {
			kindPos += fmt.Sprintf("|nested-depth-%d", depth)
		}
		g.record("field", owner, names, d, trl, trs, kindPos)
		g.prevTrailing = trs
		if g.r.Intn(6) == 0 {
			g.emit("")
			g.prevTrailing = ""
		}
	}
}

func (g *gen) file1(pkg, file string, decls int) string {
	g.b = &strings.Builder{}
	g.line = 0
	g.pkg, g.file = pkg, file
	g.emit("package " + pkg)
	g.emit("")
	// imports whose trailing comments sit on the line directly above the first declaration (no blank line between):
	// they belong to the import, never to the declaration below
	switch g.r.Intn(5) {
	case 1:
		g.emit(`import _ "embed" // ` + g.mark())
		g.prevTrailing = "import-trailing"
	case 2:
		g.emit("import (")
		g.emit("\t_ \"embed\" // " + g.mark())
		g.emit(") // " + g.mark())
		g.prevTrailing = "import-group-close-trailing"
	case 3:
		g.emit("// +importDoc=" + g.mark())
		g.emit(`import _ "embed" /* ` + g.mark() + " */")
		g.prevTrailing = "import-trailing"
	case 4:
		g.emit("import (")
		g.emit("\t_ \"embed\"")
		g.emit("\t// " + g.mark())
		g.emit("\t_ \"unsafe\" // +" + g.mark())
		g.emit(")")
		g.prevTrailing = ""
	}
	for i := 0; i < decls; i++ {
		if g.r.Intn(12) == 0 {
			// a //line directive (generated sources: goyacc, templates): every position after it is reported under
			// another file name and line; attribution must keep working (distinct, increasing targets: no collisions)
			g.lineDirectives++
			g.emit(fmt.Sprintf("//line gram%d.y:%d", g.lineDirectives, 1000*g.lineDirectives))
			g.emit("")
			g.prevTrailing = ""
		}
		switch g.r.Intn(8) {
		case 0: // ungrouped scalar type, single line: may carry a trailing comment
			d := g.doc("", true)
			if strings.HasPrefix(d.shape, "detached") {
				d.lines, d.tags = nil, map[string][]string{}
			}
			if d.shape != "none" {
				g.prevTrailing = ""
			}
			tr, trl, trs := g.trailing()
			n := g.name("T")
			g.emit("type " + n + " " + scalarTypes[g.r.Intn(len(scalarTypes))] + tr)
			g.record("type", "", []string{n}, d, trl, trs, "ungrouped")
			g.prevTrailing = trs
		case 1: // struct type with fields
			d := g.doc("", true)
			if strings.HasPrefix(d.shape, "detached") {
				d.lines, d.tags = nil, map[string][]string{}
			}
			if d.shape != "none" {
				g.prevTrailing = ""
			}
			n := g.name("S")
			g.emit("type " + n + " struct {" + g.openNoteText())
			typeExp := g.record("type", "", []string{n}, d, nil, "none", "ungrouped")
			g.fieldsAtAfterNote(n, "\t", 0)
			// a trailing comment on the LAST line of a multi-line declaration (not the declaration's own line):
			// it is nobody's Comment() and must not become the next declaration's Doc()
			if g.r.Intn(2) == 0 {
				mk := g.mark()
				g.emit("} // " + mk)
				for _, e := range typeExp {
					e.AltTrailing = []string{mk}
				}
				g.prevTrailing = "line-after-multiline"
			} else {
				g.emit("}")
				g.prevTrailing = ""
			}
		case 2: // grouped types
			gd := g.groupDoc()
			g.emit("type (" + g.openNoteText())
			g.prevTrailing = g.noteShape()
			if gd {
				g.prevTrailing += "group-doc"
			}
			k := 1 + g.r.Intn(4)
			for j := 0; j < k; j++ {
				d := g.doc("\t", false)
				if strings.HasPrefix(d.shape, "detached") {
					d.lines, d.tags = nil, map[string][]string{}
				}
				if d.shape != "none" {
					g.prevTrailing = ""
				}
				tr, trl, trs := g.trailing()
				n := g.name("G")
				g.emit("\t" + n + " " + scalarTypes[g.r.Intn(len(scalarTypes))] + tr)
				g.record("type", "", []string{n}, d, trl, trs, fmt.Sprintf("grouped%d-of%d", min(j, 2), min(k, 2)))
				g.prevTrailing = trs
			}
			g.emit(")")
			g.prevTrailing = ""
		case 3, 4: // grouped const / var
			kw := []string{"const", "var"}[g.r.Intn(2)]
			gd := g.groupDoc()
			g.emit(kw + " (" + g.openNoteText())
			g.prevTrailing = g.noteShape()
			if gd {
				g.prevTrailing += "group-doc"
			}
			k := 1 + g.r.Intn(5)
			for j := 0; j < k; j++ {
				d := g.doc("\t", false)
				if strings.HasPrefix(d.shape, "detached") {
					d.lines, d.tags = nil, map[string][]string{}
				}
				if d.shape != "none" {
					g.prevTrailing = ""
				}
				tr, trl, trs := g.trailing()
				names := []string{g.name("V")}
				if g.r.Intn(5) == 0 {
					names = append(names, g.name("W"))
					g.emit("\t" + strings.Join(names, ", ") + " = 1, 2" + tr)
				} else {
					g.emit("\t" + names[0] + " = " + []string{"1", `"s"`, "true", "1.5"}[g.r.Intn(4)] + tr)
				}
				g.record(kw, "", names, d, trl, trs, fmt.Sprintf("grouped%d-of%d", min(j, 2), min(k, 2)))
				g.prevTrailing = trs
			}
			g.emit(")")
			g.prevTrailing = ""
		case 7: // multi-line var (composite literal) / continued const expression with a trailing comment on the last line
			d := g.doc("", true)
			if strings.HasPrefix(d.shape, "detached") {
				d.lines, d.tags = nil, map[string][]string{}
			}
			if d.shape != "none" {
				g.prevTrailing = ""
			}
			n := g.name("M")
			tr := ""
			trs := ""
			var alt []string
			if g.r.Intn(3) != 0 {
				mk := g.mark()
				tr = " // " + mk
				alt = []string{mk}
				trs = "line-after-multiline"
			}
			if g.r.Intn(2) == 0 {
				g.emit("var " + n + " = []int{")
				for _, e := range g.record("var", "", []string{n}, d, nil, "none", "ungrouped-multiline") {
					e.AltTrailing = alt
				}
				g.emit("\t1,")
				g.emit("\t2,")
				g.emit("}" + tr)
			} else {
				g.emit("const " + n + " = 1 +")
				for _, e := range g.record("const", "", []string{n}, d, nil, "none", "ungrouped-multiline") {
					e.AltTrailing = alt
				}
				g.emit("\t2 +")
				g.emit("\t3" + tr)
			}
			g.prevTrailing = trs
		case 5, 6: // ungrouped const / var
			kw := []string{"const", "var"}[g.r.Intn(2)]
			d := g.doc("", true)
			if strings.HasPrefix(d.shape, "detached") {
				d.lines, d.tags = nil, map[string][]string{}
			}
			if d.shape != "none" {
				g.prevTrailing = ""
			}
			tr, trl, trs := g.trailing()
			n := g.name("U")
			g.emit(kw + " " + n + " = " + []string{"1", `"s"`, "true"}[g.r.Intn(3)] + tr)
			g.record(kw, "", []string{n}, d, trl, trs, "ungrouped")
			g.prevTrailing = trs
		}
		if g.r.Intn(3) != 0 {
			g.emit("")
			g.prevTrailing = ""
		}
	}
	return g.b.String()
}

func sameLines(a, b []string) bool {
	if len(a) == 0 && len(b) == 0 {
		return true
	}
	return reflect.DeepEqual(a, b)
}

func sameTags(a, b map[string][]string) bool {
	if len(a) == 0 && len(b) == 0 {
		return true
	}
	return reflect.DeepEqual(a, b)
}

func (p *prop) runLayout(c core.Case, w *core.Worker, res *core.Result) {
	var pa params
	c.Decode(&pa)
	r := rand.New(rand.NewSource(c.Seed))
	m, err := fixture.New(w.Scratch, fmt.Sprintf("c12-%d", c.ID), "example.com/c12", "1.24")
	if err != nil {
		res.Inconclusive = append(res.Inconclusive, err.Error())
		return
	}
	defer m.Remove()
	g := &gen{r: r}
	files := map[string]string{}
	var patterns []string
	for i := 0; i < pa.Pkgs; i++ {
		pkg := fmt.Sprintf("p%d", i)
		patterns = append(patterns, "example.com/c12/"+pkg)
		for _, fn := range []string{"a.go", "b.go"} {
			src := g.file1(pkg, fn, pa.Decls/2)
			files[pkg+"/"+fn] = src
			m.MustWrite(pkg+"/"+fn, src)
		}
		m.MustWrite(pkg+"/emb.go", fmt.Sprintf(embFile, pkg))
	}
	var u *gengotypes.Universe
	pk, pv, _ := core.Guard(func() { u, err = gengotypes.Load(patterns, gengotypes.WithDir(m.Root)) })
	if pk || err != nil {
		res.Inconclusive = append(res.Inconclusive, fmt.Sprintf("types.Load failed on a generated layout: %v %v", pv, err))
		return
	}
	res.Inc("loads")
	// two passes: in layout order, then again in reverse order - what an accessor answers must not depend on what was
	// asked before
	order := make([]*expect, 0, 2*len(g.out))
	order = append(order, g.out...)
	for i := len(g.out) - 1; i >= 0; i-- {
		order = append(order, g.out[i])
	}
	for oi, e := range order {
		second := oi >= len(g.out)
		pkg := u.Package("example.com/c12/" + e.Pkg)
		if pkg == nil {
			res.Inconclusive = append(res.Inconclusive, "package not loaded: "+e.Pkg)
			return
		}
		var obj types.Object
		if e.Kind == "field" {
			path := strings.Split(e.Owner, "/")
			var st *types.Struct
			if owner := pkg.Pkg().Scope().Lookup(path[0]); owner != nil {
				st, _ = owner.Type().Underlying().(*types.Struct)
			}
			for _, fn := range path[1:] {
				st = structOfField(st, fn)
			}
			for i := 0; st != nil && i < st.NumFields(); i++ {
				if st.Field(i).Name() == e.Name {
					obj = st.Field(i)
				}
			}
		} else {
			obj = pkg.Pkg().Scope().Lookup(e.Name)
		}
		if obj == nil {
			res.Inconclusive = append(res.Inconclusive, "object not found: "+e.Name)
			continue
		}
		if !second {
			res.Evals++
			nontriv := strings.Contains(e.Shape, "prev=line") || strings.Contains(e.Shape, "prev=block") || strings.Contains(e.Shape, "prev=embedded-") || strings.Contains(e.Shape, "tags") || strings.Contains(e.Shape, "detached")
			if nontriv {
				res.NonTrivial(e.Shape)
			}
			res.Inc("decl_" + e.Kind)
		} else {
			res.Inc("second_pass_queries")
		}
		tags, doc := pkg.Doc(obj.Pos())
		tr := pkg.Comment(obj.Pos())
		ctx := func() string {
			ls := strings.Split(files[e.Pkg+"/"+e.File], "\n")
			lo, hi := max(0, e.Line-6), min(len(ls), e.Line+1)
			return strings.Join(ls[lo:hi], "\n")
		}
		if !sameLines(doc, e.Doc) {
			res.Fail("doc-lines", e.Shape, fmt.Sprintf("%s %s (line %d of %s/%s): Doc lines = %q, want %q\nsource:\n%s", e.Kind, e.Name, e.Line, e.Pkg, e.File, doc, e.Doc, ctx()), e)
		}
		if !sameTags(tags, e.Tags) {
			res.Fail("doc-tags", e.Shape, fmt.Sprintf("%s %s (line %d of %s/%s): Doc tags = %v, want %v\nsource:\n%s", e.Kind, e.Name, e.Line, e.Pkg, e.File, tags, e.Tags, ctx()), e)
		}
		if !sameLines(tr, e.Trailing) && !(len(e.AltTrailing) > 0 && sameLines(tr, e.AltTrailing)) {
			res.Fail("trailing", e.Shape, fmt.Sprintf("%s %s (line %d of %s/%s): Comment = %q, want %q\nsource:\n%s", e.Kind, e.Name, e.Line, e.Pkg, e.File, tr, e.Trailing, ctx()), e)
		}
		res.Count("attribution_assertions", 3)
		if strings.Contains(e.Shape, "prev=line") || strings.Contains(e.Shape, "prev=block") || strings.Contains(e.Shape, "prev=embedded-") {
			if strings.Contains(e.Shape, "doc=none") {
				res.Inc("undocumented_decl_after_trailing_comment")
				if strings.Contains(e.Shape, "prev=embedded-") {
					res.Inc("undocumented_field_after_embedded_field_with_trailing_comment")
				}
			}
		}
		if strings.Contains(e.Shape, "|embedded") {
			res.Inc("embedded_fields")
		}
	}
	// third pass, through a running generator: gengo's own Context.Doc (which removes the leading name from the first
	// line) is called for a type and its fields FIRST, then Package.Doc / Package.Comment for the same position - what
	// the context does with its copy must not change what the package answers
	if pa.Pkgs > 0 && c.ID%2 == 0 {
		byKey := map[string]*expect{}
		for _, e := range g.out {
			byKey[e.Pkg+"|"+e.Kind+"|"+e.Owner+"|"+e.Name] = e
		}
		type obsv struct {
			e        *expect
			tags     map[string][]string
			doc, tr  []string
			ctx1     []string
			ctx2     []string
			panicked string
		}
		var seen []obsv
		b := &pipeline.Behaviour{Name: "c12probe"}
		b.OnType = func(gc gengo.Context, named *types.Named, inst *pipeline.Instance) error {
			pkg := gc.Package("")
			pkgName := named.Obj().Pkg().Name()
			probe := func(obj types.Object, e *expect) {
				if e == nil {
					return
				}
				o := obsv{e: e}
				if pk, pv, _ := core.Guard(func() {
					_, d1 := gc.Doc(obj)
					o.ctx1 = append([]string(nil), d1...)
					tags, doc := pkg.Doc(obj.Pos())
					o.tags, o.doc, o.tr = tags, append([]string(nil), doc...), append([]string(nil), pkg.Comment(obj.Pos())...)
					_, d2 := gc.Doc(obj)
					o.ctx2 = append([]string(nil), d2...)
				}); pk {
					o.panicked = fmt.Sprint(pv)
				}
				seen = append(seen, o)
			}
			probe(named.Obj(), byKey[pkgName+"|type||"+named.Obj().Name()])
			if st, ok := named.Underlying().(*types.Struct); ok {
				for i := 0; i < st.NumFields(); i++ {
					probe(st.Field(i), byKey[pkgName+"|field|"+named.Obj().Name()+"|"+st.Field(i).Name()])
				}
			}
			return nil
		}
		var entries []string
		for i := 0; i < pa.Pkgs; i++ {
			entries = append(entries, fmt.Sprintf("./p%d", i))
		}
		out := pipeline.Execute(m.Root, &gengo.GeneratorArgs{Entrypoint: entries, OutputFileBaseName: "zz_generated", Globals: map[string][]string{"gengo:c12probe": {"true"}}}, pipeline.New(b))
		if out.Failed() {
			res.Inconclusive = append(res.Inconclusive, "through-context pass: Execute failed: "+out.ErrString())
		}
		for _, o := range seen {
			e := o.e
			res.Inc("through_context_queries")
			where := fmt.Sprintf("%s %s (line %d of %s/%s)", e.Kind, e.Name, e.Line, e.Pkg, e.File)
			if o.panicked != "" {
				res.Fail("doc-lines", "after Context.Doc: panic", where+": "+o.panicked, e)
				continue
			}
			if !sameLines(o.doc, e.Doc) {
				res.Fail("doc-lines", "after Context.Doc "+e.Shape, fmt.Sprintf("%s: Package.Doc called after Context.Doc for the same object = %q, want %q (Context.Doc had returned %q)", where, o.doc, e.Doc, o.ctx1), e)
			}
			if !sameTags(o.tags, e.Tags) {
				res.Fail("doc-tags", "after Context.Doc "+e.Shape, fmt.Sprintf("%s: Package.Doc tags after Context.Doc = %v, want %v", where, o.tags, e.Tags), e)
			}
			if !sameLines(o.tr, e.Trailing) && !(len(e.AltTrailing) > 0 && sameLines(o.tr, e.AltTrailing)) {
				res.Fail("trailing", "after Context.Doc "+e.Shape, fmt.Sprintf("%s: Package.Comment after Context.Doc = %q, want %q", where, o.tr, e.Trailing), e)
			}
			if !sameLines(o.ctx1, o.ctx2) {
				res.Fail("doc-lines", "Context.Doc twice "+e.Shape, fmt.Sprintf("%s: Context.Doc returned %q, then %q for the same object", where, o.ctx1, o.ctx2), e)
			}
		}
	}
	if len(g.out) > 0 {
		e := g.out[len(g.out)/2]
		res.Sample(map[string]any{"decl": e.Kind + " " + e.Name, "shape": e.Shape, "expected_doc": e.Doc, "expected_tags": e.Tags, "expected_trailing": e.Trailing}, 1)
	}
}

// structOfField: the anonymous struct type that field name of st is built from (behind pointer / slice / array / map).
func structOfField(st *types.Struct, name string) *types.Struct {
	if st == nil {
		return nil
	}
	for i := 0; i < st.NumFields(); i++ {
		if st.Field(i).Name() != name {
			continue
		}
		t := st.Field(i).Type()
		for {
			switch x := t.(type) {
			case *types.Pointer:
				t = x.Elem()
				continue
			case *types.Slice:
				t = x.Elem()
				continue
			case *types.Array:
				t = x.Elem()
				continue
			case *types.Map:
				t = x.Elem()
				continue
			case *types.Struct:
				return x
			}
			return nil
		}
	}
	return nil
}

// ---------------------------------------------------------------------------------------
// ExtractCommentTags vs reference splitter

func refExtract(lines []string, markers []byte) (map[string][]string, []string) {
	if len(markers) == 0 {
		markers = []byte{'+', '@'}
	}
	tags := map[string][]string{}
	var other []string
	for _, l := range lines {
		t := strings.Trim(l, " ")
		isTag := false
		if t != "" {
			for _, m := range markers {
				if t[0] == m {
					isTag = true
				}
			}
		}
		if !isTag {
			other = append(other, t)
			continue
		}
		body := t[1:]
		k, v := body, ""
		if i := strings.IndexAny(body, "= "); i >= 0 {
			k, v = body[:i], body[i+1:]
		}
		tags[k] = append(tags[k], v)
	}
	return tags, other
}

var tagAtoms = []string{
	// non-ASCII first characters whose code point ENDS in the byte of a marker (U+0440, U+042B, U+592B: low byte 0x40 /
	// 0x2B; U+0123: low byte '#') - they are ordinary text, never markers; a marker followed by non-ASCII text
	"р", "Ы", "夫", "ģ", "размер", "夫妻", "+р", "@夫", "＋", "＠","+", "@", "#", "=", " ", "  ", "k", "key", "gengo:deepcopy", "gengo:x:y", "v", "a=b", "é", "\t", "false", "+k=v", "@k v", "+k", "-", "x y z",
	// values that are valid Go string / rune literals as a whole: the value is everything after the separator, verbatim -
	// quotes included, escapes not decoded (seeded change C12-m: strconv.Unquote on the value)
	"+q=\"v\"", "+q=\"a\\tb\"", "@pat `^[a-z]+$`", "+sep=\",\"", "@d 'x'", "\"", "'", "`", "\"x\"", "\\t", "\\n"}

func (p *prop) runTags(c core.Case, res *core.Result) {
	var pa params
	c.Decode(&pa)
	r := rand.New(rand.NewSource(c.Seed))
	for i := 0; i < pa.N; i++ {
		n := r.Intn(6)
		lines := make([]string, n)
		for j := range lines {
			lines[j] = core.RandString(r, tagAtoms, r.Intn(5))
		}
		var markers []byte
		switch r.Intn(4) {
		case 0:
			markers = []byte{'#'}
		case 1:
			markers = []byte{'+'}
		}
		var tags map[string][]string
		var other []string
		pk, pv, _ := core.Guard(func() { tags, other = gengotypes.ExtractCommentTags(lines, markers...) })
		wt, wo := refExtract(lines, markers)
		res.Evals++
		nTags := 0
		for _, v := range wt {
			nTags += len(v)
		}
		if nTags > 0 {
			res.NonTrivial(strings.Join(lines, "\n") + string(markers))
		}
		res.Inc("tag_line_lists_checked")
		if pk {
			res.Fail("tags-panic", fmt.Sprintf("%q", lines), fmt.Sprintf("ExtractCommentTags(%q, %q) panicked: %v", lines, markers, pv), lines)
			continue
		}
		if !sameTags(tags, wt) || !sameLines(other, wo) {
			sh := core.ShrinkSlice(lines, func(ls []string) bool {
				t, o := gengotypes.ExtractCommentTags(ls, markers...)
				rt, ro := refExtract(ls, markers)
				return !sameTags(t, rt) || !sameLines(o, ro)
			})
			res.Fail("tags-differential", fmt.Sprintf("%q %q", sh, markers), fmt.Sprintf("ExtractCommentTags(%q, %q) = %v, %q; reference: %v, %q", lines, markers, tags, other, wt, wo), lines)
		}
		// every line classified exactly once
		if nTags+len(other) != len(lines) {
			res.Fail("tags-partition", fmt.Sprintf("%q", lines), fmt.Sprintf("%d lines in, %d tag values + %d other lines out", len(lines), nTags, len(other)), lines)
		}
		if i == 0 {
			ks := []string{}
			for k := range wt {
				ks = append(ks, k)
			}
			sort.Strings(ks)
			res.Sample(map[string]any{"lines": lines, "markers": string(markers), "tag_keys": ks}, 1)
		}
	}
}

func (p *prop) Run(c core.Case, w *core.Worker) core.Result {
	res := core.Result{CaseID: c.ID}
	switch c.Kind {
	case "layout":
		p.runLayout(c, w, &res)
	case "tags":
		p.runTags(c, &res)
	}
	return res
}
