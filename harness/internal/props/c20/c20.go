// Package c20: inflection is total, pure (also under concurrent callers) and only rewrites the last word.
package c20

import (
	"crypto/sha256"
	"encoding/hex"
	"encoding/json"
	"fmt"
	"math/rand"
	"os"
	"os/exec"
	"path/filepath"
	"runtime"
	"sort"
	"strings"
	"sync"
	"sync/atomic"
	"time"
	"unicode"

	"github.com/anishathalye/porcupine"
	"github.com/octohelm/gengo/pkg/inflector"

	"verif/internal/core"
	"verif/internal/firstuse"
)

func init() { core.Register(&prop{}) }

type prop struct{}

func (*prop) ID() string    { return "C20" }
func (*prop) Level() string { return "exploration" }
func (*prop) Rule() string {
	return "(a) inputs: every irregular word of both tables and every literal uninflected word x {lower, UPPER, Title} x prefixes ending in an ASCII boundary character (space - . / + : and longer prefixes with spaces, digits, Unicode) x {Pluralize, Singularize}; " +
		"for totality/purity only: prefixes ending in a non-ASCII letter, Unicode case-fold twins (long s, Kelvin sign), empty, non-ASCII and seeded long random strings. " +
		"Oracles: no panic; f(x) twice equal; f(p+w) == p+f(w) for every boundary prefix p and irregular w; result is valid UTF-8 when the input is; a fresh child process that inflects the same inputs (all case variants of every table word, with and without prefixes) in the reverse order gives the same answers. " +
		"(b) schedules: rounds in which G goroutines leave a barrier together and call both operations on a small shared key set plus keys fresh to that round (first-insert contention on the memo cache every round), " +
		"GOMAXPROCS in {2,4,16}, under the race detector; the call/return history (one logical clock) is checked directly (every return for a key equals the sequentially known value prefix+f(word)) " +
		"and per key against a write-once-register model with porcupine. Non-trivial = input with a boundary prefix and an irregular word, or a concurrent round; distinct by 64-bit hash of the input / of the round's completion order."
}
func (*prop) Assumptions() []string {
	return []string{
		"what counts as a word boundary is taken from the statement (ASCII space, hyphen and other ASCII punctuation); prefixes ending in non-ASCII letters are only checked for totality",
		"the race detector and porcupine only judge the interleavings the rounds actually produced; the evidence reports how many overlapping call pairs and distinct completion orders were observed",
		"the expected value of a fresh concurrent key is p+f(w) with f(w) computed sequentially before any concurrency started",
	}
}
func (*prop) MinDistinct(tier string) int64 {
	if tier == "thorough" {
		return 100000
	}
	return 5000
}
func (*prop) WantsRace(tier string) bool { return true }

// The two irregular tables, copied from the statement's anchor (pkg/inflector/internal/rules.go) as data: the
// harness needs the words, not the expected results (those come from the function itself on the bare word).
var pluralIrregular = strings.Fields(`atlas beef brother cafe child cookie corpus cow ganglion genie genus graffito hoof loaf man money mongoose move mythos niche numen occiput octopus opus ox penis person sex soliloquy testis trilby turf potato hero tooth goose foot`)
var singularIrregular = strings.Fields(`foes waves curves atlases beefs brothers cafes children cookies corpuses cows ganglions genies genera graffiti hoofs loaves men monies mongooses moves mythoi niches numina occiputs octopuses opuses oxen penises people sexes soliloquies testes trilbys turfs potatoes heroes teeth geese feet`)
var uninflectedWords = strings.Fields(`Amoyese bison Borghese bream breeches britches buffalo cantus carp chassis clippers cod coitus Congoese contretemps corps debris diabetes djinn eland elk equipment Faroese flounder Foochowese gallows Genevese Genoese Gilbertese graffiti headquarters herpes hijinks Hottentotese information innings jackanapes Kiplingese Kongoese Lucchese mackerel Maltese multimedia mews moose mumps Nankingese news nexus Niasese Pekingese Piedmontese pincers Pistoiese pliers Portuguese proceedings rabies rice rhinoceros salmon Sarawakese scissors sea-bass series Shavese shears siemens species swine testes trousers trout tuna Vermontese Wenchowese whiting wildebeest Yengeese reindeer goldfish measles bourgeois smallpox sheep people glass`)

var boundaryPrefixes = []string{"old ", "old-", "a.", "x/", "q+", "z:", "two words ", "9-", "é ", "世界 ", "UPPER-", "a-b-", "(", "\"", "x_y ", "tab\t", "nl\n",
	// text that means something to a regexp replacement template or pattern
	"$HOME ", "$1 ", "US$", "a$$b ", "${1} ", "\\1 ", "(.*) ", "[a-z]+ ", "100% ", "^"}
var nonBoundaryPrefixes = []string{"é", "xé", "世", "ß"}

type op struct {
	name string
	f    func(string) string
	irr  []string
}

var ops = []op{{"Pluralize", inflector.Pluralize, pluralIrregular}, {"Singularize", inflector.Singularize, singularIrregular}}

func caseVariants(w string) []string {
	t := strings.ToUpper(w[:1]) + w[1:]
	return []string{w, strings.ToUpper(w), t}
}

func (*prop) Cases(seed int64, tier string) []core.Case {
	nrand, randN, rounds := 16, 1500, 40
	if tier == "thorough" {
		nrand, randN, rounds = 48, 6000, 250
	}
	var cs []core.Case
	cs = append(cs, core.MkCase("tables", nil))
	cs = append(cs, core.MkCase("tables", nil)) // again in another process: digest must agree
	for i := 0; i < nrand; i++ {
		cs = append(cs, core.MkCase("random", map[string]int{"n": randN}))
	}
	cs = append(cs, core.MkCase("order", nil))
	nmany := 200_000
	if tier == "thorough" {
		nmany = 1_000_000
	}
	cs = append(cs, core.MkCase("many-distinct", map[string]int{"n": nmany}))
	nfirst := 2
	if tier == "thorough" {
		nfirst = 12
	}
	for i := 0; i < nfirst; i++ {
		cs = append(cs, core.MkCase("first-use", map[string]int{"procs": []int{4, 16, 2}[i%3], "g": []int{48, 16, 96}[i%3], "children": 6}))
	}
	for _, procs := range []int{2, 4, 16} {
		for k := 0; k < 4; k++ {
			cs = append(cs, core.MkCase("concurrent", map[string]int{"procs": procs, "rounds": rounds, "g": 32}))
		}
	}
	return cs
}

func call(o op, s string) (out string, msg string) {
	var a, b string
	pk, pv, _ := core.Guard(func() { a = o.f(s); b = o.f(s) })
	if pk {
		return "", fmt.Sprintf("%s(%q) panicked: %v", o.name, s, pv)
	}
	if a != b {
		return "", fmt.Sprintf("%s(%q) returned %q then %q", o.name, s, a, b)
	}
	return a, ""
}

func validUTF8(s string) bool { return strings.ToValidUTF8(s, "�") == s }

// checkPrefix: f(p+w) == p+f(w)
func checkPrefix(o op, p, w string) string {
	fw, m := call(o, w)
	if m != "" {
		return m
	}
	fpw, m := call(o, p+w)
	if m != "" {
		return m
	}
	if fpw != p+fw {
		return fmt.Sprintf("%s(%q) = %q, want %q (prefix %q preserved + %s(%q) = %q)", o.name, p+w, fpw, p+fw, p, o.name, w, fw)
	}
	return ""
}

func (p *prop) runTables(res *core.Result, dup bool) {
	h := sha256.New()
	for _, o := range ops {
		for _, w0 := range o.irr {
			for _, w := range caseVariants(w0) {
				// alone
				out, m := call(o, w)
				res.Evals++
				if m != "" {
					res.Fail("total-pure", o.name+" "+w, m, w)
					continue
				}
				h.Write([]byte(out + "\x00"))
				res.Inc("irregular_words_alone")
				// (the last four prefixes contain the word itself, in the same case: as a word, as a substring, twice)
				for _, pre := range append(append([]string{}, boundaryPrefixes...), w+" to ", w+"ford ", "x"+w+"y-", w+" "+w+" ") {
					res.Evals++
					if !dup {
						res.NonTrivial(o.name + "|" + pre + w)
					}
					res.Inc("prefix_preservation_checks")
					if m := checkPrefix(o, pre, w); m != "" {
						res.Fail("prefix-preserved", fmt.Sprintf("%s %q+%q", o.name, pre, w0), m, pre+w)
					}
				}
				for _, pre := range nonBoundaryPrefixes {
					res.Evals++
					out, m := call(o, pre+w)
					if m != "" {
						res.Fail("total-pure", fmt.Sprintf("%s %q", o.name, pre+w), m, pre+w)
					} else if !validUTF8(out) {
						res.Fail("valid-utf8", fmt.Sprintf("%s %q", o.name, pre+w), fmt.Sprintf("%s(%q) = %q is not valid UTF-8", o.name, pre+w, out), pre+w)
					}
					res.Inc("non_ascii_prefix_totality_checks")
				}
				// case-fold twins of each letter that has one
				for _, tw := range foldTwins(w) {
					res.Evals++
					res.Inc("case_fold_twin_checks")
					if _, m := call(o, tw); m != "" {
						res.Fail("total-pure", fmt.Sprintf("%s %q", o.name, tw), m, tw)
					}
					if _, m := call(o, "a "+tw); m != "" {
						res.Fail("total-pure", fmt.Sprintf("%s %q", o.name, "a "+tw), m, "a "+tw)
					}
				}
			}
		}
		for _, w0 := range uninflectedWords {
			for _, w := range caseVariants(w0) {
				for _, pre := range append([]string{""}, boundaryPrefixes...) {
					res.Evals++
					out, m := call(o, pre+w)
					if m != "" {
						res.Fail("total-pure", fmt.Sprintf("%s %q", o.name, pre+w), m, pre+w)
						continue
					}
					h.Write([]byte(out + "\x00"))
					res.Inc("uninflected_words_checked")
				}
			}
		}
		for _, s := range []string{"", " ", "-", "s", "S", "é", "世界", "\xff", "a\xffman", "ſ", "K", "ox", "OX", "Ox", "status", "quiz", strings.Repeat("man ", 200) + "man"} {
			res.Evals++
			out, m := call(o, s)
			if m != "" {
				res.Fail("total-pure", fmt.Sprintf("%s %q", o.name, s), m, s)
				continue
			}
			if validUTF8(s) && !validUTF8(out) {
				res.Fail("valid-utf8", fmt.Sprintf("%s %q", o.name, s), fmt.Sprintf("%s(%q) = %q is not valid UTF-8", o.name, s, out), s)
			}
			res.Inc("special_inputs_checked")
		}
	}
	res.Digest("tables", hex.EncodeToString(h.Sum(nil)))
	res.Sample(map[string]any{"op": "Pluralize", "input": "old-person", "prefix": "old-", "word": "person", "got": inflector.Pluralize("old-person")}, 2)
}

// foldTwins returns variants of w where one letter is replaced by a rune that is equal under simple case
// folding but not an ASCII letter (s -> long s U+017F, k -> Kelvin sign U+212A).
func foldTwins(w string) []string {
	var out []string
	for i, r := range w {
		for f := unicode.SimpleFold(r); f != r; f = unicode.SimpleFold(f) {
			if f > 127 {
				out = append(out, w[:i]+string(f)+w[i+len(string(r)):])
			}
		}
	}
	return out
}

var randAlphabet = []string{"a", "e", "s", "x", "y", "o", "u", "f", "i", "m", "n", "S", "X", " ", "-", ".", "_", "é", "世", "ſ", "K", "\xff", "man", "person", "ox", "fish", "sheep", "ss", "us", "is", "ies", "ves", "men", "people", "child", "children", "tooth", "teeth", "news", "media"}

func (p *prop) runRandom(c core.Case, res *core.Result) {
	var rp map[string]int
	c.Decode(&rp)
	r := rand.New(rand.NewSource(c.Seed))
	for i := 0; i < rp["n"]; i++ {
		s := core.RandString(r, randAlphabet, 1+r.Intn(8))
		for _, o := range ops {
			res.Evals++
			out, m := call(o, s)
			if m != "" {
				sh := core.ShrinkString(s, func(x string) bool { _, m := call(o, x); return m != "" })
				res.Fail("total-pure", fmt.Sprintf("%s %q", o.name, sh), m, s)
				continue
			}
			if validUTF8(s) && !validUTF8(out) {
				res.Fail("valid-utf8", fmt.Sprintf("%s %q", o.name, s), fmt.Sprintf("%s(%q) = %q is not valid UTF-8", o.name, s, out), s)
			}
			res.Inc("random_inputs_checked")
			// random boundary prefix + irregular word
			w := caseVariants(o.irr[r.Intn(len(o.irr))])[r.Intn(3)]
			pre := s + boundaryPrefixes[r.Intn(6)]
			res.Evals++
			res.NonTrivial(o.name + "|" + pre + w)
			res.Inc("prefix_preservation_checks")
			if m := checkPrefix(o, pre, w); m != "" {
				res.Fail("prefix-preserved", fmt.Sprintf("%s %q+%q", o.name, boundaryPrefixes[0], strings.ToLower(w)), m, pre+w)
			}
		}
		if i == 0 {
			res.Sample(map[string]any{"input": s, "Pluralize": inflector.Pluralize(s), "Singularize": inflector.Singularize(s)}, 1)
		}
	}
}

// ---------------------------------------------------------------------------------------
// concurrent rounds with a recorded history

type histOp struct {
	G      int
	OpIdx  int
	Key    string
	Call   int64
	Ret    int64
	Result string
}

type regIn struct {
	Op  int
	Key string
}

func (p *prop) runConcurrent(c core.Case, res *core.Result) {
	var cp map[string]int
	c.Decode(&cp)
	prev := runtime.GOMAXPROCS(cp["procs"])
	defer runtime.GOMAXPROCS(prev)
	r := rand.New(rand.NewSource(c.Seed))
	G := cp["g"]

	// sequential knowledge computed before any concurrency: f(w) for every bare irregular word
	base := map[string]string{}
	for oi, o := range ops {
		for _, w := range o.irr {
			base[fmt.Sprintf("%d|%s", oi, w)] = o.f(w)
		}
	}
	shared := []string{"person", "old-person", "people", "ox", "sheep", "status", "shared key man"}
	sharedWant := map[string]string{}

	var clock int64
	orders := map[uint64]bool{}
	overlaps := int64(0)
	calls := int64(0)
	for round := 0; round < cp["rounds"]; round++ {
		// keys fresh to this round: unique prefix + irregular word => expected value known without calling
		type fresh struct {
			key  string
			want [2]string
		}
		var fr []fresh
		for k := 0; k < 6; k++ {
			pre := fmt.Sprintf("r%d-%d-%d ", c.Seed%100000, round, k)
			var f fresh
			wp := pluralIrregular[r.Intn(len(pluralIrregular))]
			f.key = pre + wp
			f.want[0] = pre + base["0|"+wp]
			// Singularize of p+plural-irregular-word: only known when the word is also a singular irregular
			f.want[1] = ""
			fr = append(fr, f)
			ws := singularIrregular[r.Intn(len(singularIrregular))]
			var f2 fresh
			f2.key = pre + ws
			f2.want[1] = pre + base["1|"+ws]
			fr = append(fr, f2)
		}
		hist := make([][]histOp, G)
		var wg sync.WaitGroup
		var ready sync.WaitGroup
		start := make(chan struct{})
		for g := 0; g < G; g++ {
			wg.Add(1)
			ready.Add(1)
			plan := make([]regIn, 0, 24)
			for _, f := range fr {
				plan = append(plan, regIn{0, f.key}, regIn{1, f.key})
			}
			for _, k := range shared {
				plan = append(plan, regIn{r.Intn(2), k})
			}
			r.Shuffle(len(plan), func(i, j int) { plan[i], plan[j] = plan[j], plan[i] })
			go func(g int, plan []regIn) {
				defer wg.Done()
				h := make([]histOp, 0, len(plan))
				ready.Done()
				<-start
				for _, in := range plan {
					t0 := atomic.AddInt64(&clock, 1)
					out := ops[in.Op].f(in.Key)
					t1 := atomic.AddInt64(&clock, 1)
					h = append(h, histOp{G: g, OpIdx: in.Op, Key: in.Key, Call: t0, Ret: t1, Result: out})
				}
				hist[g] = h
			}(g, plan)
		}
		ready.Wait()
		close(start)
		wg.Wait()

		// direct oracle + porcupine history
		var all []histOp
		for _, h := range hist {
			all = append(all, h...)
		}
		calls += int64(len(all))
		wantFresh := map[string]string{}
		for _, f := range fr {
			for oi := 0; oi < 2; oi++ {
				if f.want[oi] != "" {
					wantFresh[fmt.Sprintf("%d|%s", oi, f.key)] = f.want[oi]
				}
			}
		}
		first := map[string]string{}
		var pops []porcupine.Operation
		for _, h := range all {
			k := fmt.Sprintf("%d|%s", h.OpIdx, h.Key)
			if w, ok := wantFresh[k]; ok && h.Result != w {
				res.Fail("concurrent-result", ops[h.OpIdx].name+" fresh-key", fmt.Sprintf("round %d goroutine %d: %s(%q) = %q, want %q", round, h.G, ops[h.OpIdx].name, h.Key, h.Result, w), h)
			}
			if w, ok := sharedWant[k]; ok && h.Result != w {
				res.Fail("concurrent-result", ops[h.OpIdx].name+" shared-key", fmt.Sprintf("round %d goroutine %d: %s(%q) = %q, earlier rounds returned %q", round, h.G, ops[h.OpIdx].name, h.Key, h.Result, w), h)
			}
			if f, ok := first[k]; ok {
				if f != h.Result {
					res.Fail("concurrent-result", ops[h.OpIdx].name+" same-round", fmt.Sprintf("round %d: %s(%q) returned both %q and %q", round, ops[h.OpIdx].name, h.Key, f, h.Result), h)
				}
			} else {
				first[k] = h.Result
			}
			pops = append(pops, porcupine.Operation{ClientId: h.G, Input: regIn{h.OpIdx, h.Key}, Call: h.Call, Output: h.Result, Return: h.Ret})
		}
		for k, v := range first {
			if _, ok := wantFresh[k]; !ok {
				if _, ok := sharedWant[k]; !ok {
					sharedWant[k] = v
				}
			}
		}
		resLin, _ := porcupine.CheckOperationsVerbose(registerModel, pops, 60*time.Second)
		switch resLin {
		case porcupine.Illegal:
			res.Fail("porcupine-write-once-register", "history", fmt.Sprintf("round %d: history of %d calls is not linearizable against a write-once register per key", round, len(pops)), nil)
		case porcupine.Unknown:
			res.Inconclusive = append(res.Inconclusive, fmt.Sprintf("porcupine timed out on round %d", round))
		default:
			res.Inc("porcupine_histories_ok")
		}
		// observed interleaving statistics: overlapping call pairs on the same key, completion order fingerprint
		sort.Slice(all, func(i, j int) bool { return all[i].Call < all[j].Call })
		byKey := map[string][]histOp{}
		for _, h := range all {
			k := fmt.Sprintf("%d|%s", h.OpIdx, h.Key)
			byKey[k] = append(byKey[k], h)
		}
		for _, hs := range byKey {
			for i := 0; i < len(hs); i++ {
				for j := i + 1; j < len(hs) && hs[j].Call < hs[i].Ret; j++ {
					overlaps++
				}
			}
		}
		sort.Slice(all, func(i, j int) bool { return all[i].Ret < all[j].Ret })
		var sb strings.Builder
		for _, h := range all[:min(len(all), 64)] {
			fmt.Fprintf(&sb, "%d,", h.G)
		}
		orders[core.Hash64(sb.String())] = true
		res.Evals++
		res.NonTrivial(fmt.Sprintf("round|%d|%s", c.Seed, sb.String()))
		if round == 0 {
			res.Sample(map[string]any{"round": 0, "gomaxprocs": cp["procs"], "goroutines": G, "first_history_events": all[:min(len(all), 6)]}, 1)
		}
	}
	res.Count("concurrent_rounds", int64(cp["rounds"]))
	res.Count("concurrent_calls_recorded", calls)
	res.Count("overlapping_same_key_call_pairs", overlaps)
	res.Count("distinct_completion_orders", int64(len(orders)))
}

// ---- order independence: a fresh process that sees the same inputs in the reverse order must give the same answers
// (catches a memo cache keyed too coarsely, e.g. by the lower-cased input)

func inflectAll(inputs []string) [][2]string {
	out := make([][2]string, len(inputs))
	for i, s := range inputs {
		core.Guard(func() { out[i][0] = inflector.Pluralize(s) })
		core.Guard(func() { out[i][1] = inflector.Singularize(s) })
	}
	return out
}

func init() {
	core.RegisterHelper("c20order", func(argFile string) {
		b, err := os.ReadFile(argFile)
		if err != nil {
			panic(err)
		}
		var inputs []string
		if err := json.Unmarshal(b, &inputs); err != nil {
			panic(err)
		}
		ob, _ := json.Marshal(inflectAll(inputs))
		_ = os.WriteFile(argFile+".out", ob, 0o644)
	})
}

// runFirstUse: fresh child processes (the -race build when the check runs under the race detector) in which the first
// calls ever made to the inflector are concurrent; every goroutine's answers must equal this process's sequential ones,
// no call may panic, and the child's race detector must stay silent.
func (p *prop) runFirstUse(c core.Case, w *core.Worker, res *core.Result) {
	var pa map[string]int
	c.Decode(&pa)
	r := rand.New(rand.NewSource(c.Seed))
	var inputs []string
	for _, o := range ops {
		for _, w0 := range o.irr {
			inputs = append(inputs, w0, "old "+w0)
		}
	}
	inputs = append(inputs, uninflectedWords...)
	inputs = append(inputs, "status", "quiz", "ox", "bus", "box", "category", "wolf", "matrix", "analysis", "user_id", "News", "")
	r.Shuffle(len(inputs), func(i, j int) { inputs[i], inputs[j] = inputs[j], inputs[i] })
	if len(inputs) > 160 {
		inputs = inputs[:160]
	}
	here := firstuse.Sequential("inflector", inputs)
	fns := firstuse.Funcs["inflector"]
	for child := 0; child < pa["children"]; child++ {
		ch := firstuse.Run(w.Scratch, fmt.Sprintf("c20-%d-%d", c.ID, child), firstuse.Arg{Kind: "inflector", Procs: pa["procs"], G: pa["g"], Inputs: inputs})
		res.Inc("first_use_child_processes")
		if ch.Races > 0 {
			res.Fail("data-race", "first use", fmt.Sprintf("the race detector reported %d data race(s) in a process whose first inflector calls were concurrent (%d goroutines, GOMAXPROCS %d):\n%s", ch.Races, pa["g"], pa["procs"], clipS(ch.Log, 3000)), nil)
			res.Count("first_use_race_reports", int64(ch.Races))
		}
		if ch.Crashed {
			res.Fail("first-use-crash", "first use", fmt.Sprintf("the child process died before writing its results: %s\n%s", ch.Err, clipS(ch.Log, 3000)), nil)
			continue
		}
		if ch.Err != "" {
			res.Inconclusive = append(res.Inconclusive, "first-use child: "+ch.Err+" "+clipS(ch.Log, 500))
			return
		}
		for g := range ch.Out {
			for i, s := range inputs {
				res.Evals++
				for k, fn := range fns {
					got := ch.Out[g][i][k]
					switch {
					case strings.HasPrefix(got, "\x00PANIC"):
						res.Fail("panic", "first use "+fn.Name, fmt.Sprintf("%s(%q) panicked in a process whose first inflector calls were concurrent: %s", fn.Name, s, got[1:]), s)
					case got != here[i][k]:
						res.Fail("same-result-concurrently", "first use "+fn.Name, fmt.Sprintf("%s(%q) = %q in goroutine %d of a process whose first inflector calls were concurrent, %q sequentially", fn.Name, s, got, g, here[i][k]), s)
					}
				}
			}
		}
		res.NonTrivial(fmt.Sprintf("first-use|%d|%d|%d|%d", c.Seed, child, pa["procs"], pa["g"]))
		res.Count("first_use_results_compared", int64(len(fns)*len(inputs)*len(ch.Out)))
	}
}

// runManyDistinct: very many distinct inputs through ONE process (enough for a birthday collision in any 32-bit key
// space: 200 000 inputs give about five colliding pairs, a million about a hundred), forwards in one fresh process and
// backwards in another; a memo keyed by anything less than the input itself makes the two disagree.
func (p *prop) runManyDistinct(c core.Case, w *core.Worker, res *core.Result) {
	var pa map[string]int
	c.Decode(&pa)
	r := rand.New(rand.NewSource(c.Seed))
	seen := map[string]bool{}
	inputs := make([]string, 0, pa["n"])
	var tails []string
	for _, o := range ops {
		tails = append(tails, o.irr...)
	}
	for len(inputs) < pa["n"] {
		b := make([]byte, 3+r.Intn(7))
		for j := range b {
			b[j] = byte('a' + r.Intn(26))
		}
		s := string(b)
		switch r.Intn(8) {
		case 0:
			s += " " + tails[r.Intn(len(tails))]
		case 1:
			s += "-" + tails[r.Intn(len(tails))]
		case 2:
			s = strings.ToUpper(s[:1]) + s[1:]
		}
		if !seen[s] {
			seen[s] = true
			inputs = append(inputs, s)
		}
	}
	diffs, problem := firstuse.ManyDistinct(w.Scratch, fmt.Sprintf("c20many-%d", c.ID), "inflector", inputs)
	if problem != "" {
		res.Inconclusive = append(res.Inconclusive, "many-distinct: "+clipS(problem, 800))
		return
	}
	res.Evals += int64(len(inputs))
	res.Count("many_distinct_inputs_compared_across_orders", int64(len(inputs)))
	res.NonTrivial(fmt.Sprintf("many-distinct|%d|%d", c.Seed, len(inputs)))
	for i, d := range diffs {
		if i >= 20 {
			break
		}
		res.Fail("order-independent", "many distinct "+d.Func, fmt.Sprintf("%s(%q) = %q in a process that saw %d distinct inputs forwards, %q in one that saw them backwards", d.Func, d.Input, d.Forward, len(inputs), d.Reverse), d.Input)
	}
}

func clipS(s string, n int) string {
	if len(s) <= n {
		return s
	}
	return s[:n] + "…"
}

func (p *prop) runOrder(c core.Case, w *core.Worker, res *core.Result) {
	r := rand.New(rand.NewSource(c.Seed))
	var inputs []string
	for _, o := range ops {
		for _, w0 := range o.irr {
			for _, v := range caseVariants(w0) {
				inputs = append(inputs, v, "old "+v, "OLD-"+v, strings.ToLower("Old "+v))
			}
		}
	}
	for _, w0 := range uninflectedWords {
		inputs = append(inputs, caseVariants(w0)...)
	}
	for _, s := range []string{"status", "Status", "STATUS", "quiz", "Quiz", "ox", "Ox", "OX", "bus", "Bus", "BUS", "İstanbul person", "istanbul person", "ISTANBUL PERSON"} {
		inputs = append(inputs, s)
	}
	r.Shuffle(len(inputs), func(i, j int) { inputs[i], inputs[j] = inputs[j], inputs[i] })
	here := inflectAll(inputs)
	rev := make([]string, len(inputs))
	for i, s := range inputs {
		rev[len(inputs)-1-i] = s
	}
	dir, err := os.MkdirTemp(w.Scratch, "c20-")
	if err != nil {
		res.Inconclusive = append(res.Inconclusive, err.Error())
		return
	}
	defer os.RemoveAll(dir)
	argFile := filepath.Join(dir, "in.json")
	ib, _ := json.Marshal(rev)
	_ = os.WriteFile(argFile, ib, 0o644)
	cmd := exec.Command(os.Getenv("VERIF_EXE"), "-helper", "c20order", argFile)
	if ob, err := cmd.CombinedOutput(); err != nil {
		res.Inconclusive = append(res.Inconclusive, fmt.Sprintf("helper process failed: %v %s", err, string(ob)))
		return
	}
	var there [][2]string
	ob, _ := os.ReadFile(argFile + ".out")
	if err := json.Unmarshal(ob, &there); err != nil || len(there) != len(inputs) {
		res.Inconclusive = append(res.Inconclusive, "helper output unreadable")
		return
	}
	first, firstThere := map[string][2]string{}, map[string][2]string{}
	for i, s := range inputs {
		if _, ok := first[s]; !ok {
			first[s] = here[i]
		}
	}
	for i, s := range rev {
		if _, ok := firstThere[s]; !ok {
			firstThere[s] = there[i]
		}
	}
	for s, a := range first {
		res.Evals++
		res.NonTrivial("order|" + s)
		b := firstThere[s]
		for k := 0; k < 2; k++ {
			if a[k] != b[k] {
				res.Fail("order-independent", ops[k].name, fmt.Sprintf("%s(%q) = %q in this process but %q in a fresh process that saw the same inputs in reverse order", ops[k].name, s, a[k], b[k]), s)
			}
		}
	}
	res.Count("order_independence_inputs_compared", int64(len(first)))
}

var registerModel = porcupine.Model{
	Partition: func(history []porcupine.Operation) [][]porcupine.Operation {
		m := map[regIn][]porcupine.Operation{}
		for _, o := range history {
			k := o.Input.(regIn)
			m[k] = append(m[k], o)
		}
		out := make([][]porcupine.Operation, 0, len(m))
		for _, v := range m {
			out = append(out, v)
		}
		return out
	},
	Init: func() any { return "\x00unset" },
	Step: func(state, input, output any) (bool, any) {
		st := state.(string)
		out := output.(string)
		if st == "\x00unset" {
			return true, out
		}
		return st == out, st
	},
	Equal: func(a, b any) bool { return a.(string) == b.(string) },
}

func (p *prop) Run(c core.Case, w *core.Worker) core.Result {
	res := core.Result{CaseID: c.ID}
	switch c.Kind {
	case "tables":
		p.runTables(&res, c.ID > 0)
	case "random":
		p.runRandom(c, &res)
	case "concurrent":
		p.runConcurrent(c, &res)
	case "order":
		p.runOrder(c, w, &res)
	case "first-use":
		p.runFirstUse(c, w, &res)
	case "many-distinct":
		p.runManyDistinct(c, w, &res)
	}
	return res
}
