// Package c11: type literals denote the type they were rendered from (the Go type checker is the judge).
package c11

import (
	"bytes"
	"fmt"
	"go/types"
	"math/rand"
	"reflect"
	"sort"
	"strings"

	"github.com/octohelm/gengo/pkg/gengo"
	"github.com/octohelm/gengo/pkg/gengo/snippet"
	"github.com/octohelm/gengo/pkg/namer"

	"verif/fixtures/catalog"
	"verif/internal/core"
	"verif/typgen"
)

func init() { core.Register(&prop{}) }

type prop struct{}

func (*prop) ID() string    { return "C11" }
func (*prop) Level() string { return "exploration" }
func (*prop) Rule() string {
	return "closed type expressions of depth <= 4 (quick) / 5 (thorough) are generated from the grammar {predeclared types, error, any, named types and aliases of several packages incl. twins named rand / template and the target package, " +
		"generic instantiations with basic / named / nested-generic arguments, pointers, slices, arrays, maps, bidirectional chans, structs with tags (quotes, dots, colons), embedded value and pointer fields}. " +
		"Route A builds them as go/types types over fabricated packages and renders them with snippet.ID(types.Type) / Sprintf(%T) / ID(*types.Alias); route B builds them as reflect types from a compiled catalogue (two fixture packages, std types, 17 generic instantiations, reflect.*Of composites, compiled embedding structs) and renders them with ID(reflect.Type) / %T. " +
		"Targets: the type's own package, another package, a tracker that already imported clashing names. Oracle: the file `package target; import (<tracker imports>); var Ci <rendered>` type-checks with go/types and every Ci is types.Identical to the type the expression tree denotes; " +
		"qualifiers in the text are exactly the tracker names of the foreign packages in source order, local types unqualified; no unused import. Non-trivial = depth >= 1 or a generic instantiation; distinct by hash of (route, target kind, expression)."
}
func (*prop) Assumptions() []string {
	return []string{
		"directional chans, func and non-empty interface literals, free type parameters, pointer/composite generic arguments and unexported fields of foreign structs are outside the stated grammar and not generated",
		"route A packages are fabricated by the harness; named types are compared by object identity, composites structurally (types.Identical)",
		"the pipeline-level counterpart (generated files vetted by the real toolchain) is part of C01/C17/C18",
	}
}
func (*prop) MinDistinct(tier string) int64 {
	if tier == "thorough" {
		return 80000
	}
	return 2500
}

var pathPool = []string{
	"example.com/a", "example.com/b", "example.com/x/rand", "math/rand", "crypto/rand", "text/template", "html/template", "github.com/json-iterator/go", "example.com/c-d", "example.com/cd",
	"k8s.io/api/core/v1", "k8s.io/api/apps/v1", "example.com/type", "time", "bytes", "example.com/2fa", "gopkg.in/yaml.v3", "rand",
}

type params struct {
	N     int    `json:"n"`
	Depth int    `json:"depth"`
	Route string `json:"route"`
}

func (*prop) Cases(seed int64, tier string) []core.Case {
	nc, n, depth := 24, 100, 4
	if tier == "thorough" {
		nc, n, depth = 128, 600, 5
	}
	var cs []core.Case
	for i := 0; i < nc; i++ {
		cs = append(cs, core.MkCase("types-route", params{n, depth, "A"}))
		cs = append(cs, core.MkCase("reflect-route", params{n, depth, "B"}))
	}
	cs = append(cs, core.MkCase("regressions", nil))
	return cs
}

type item struct {
	Expr *typgen.Expr `json:"expr"`
	Via  string       `json:"via"` // id | sprintf | alias
}

type scenario struct {
	Route   string   `json:"route"`
	Target  string   `json:"target"`
	TKind   string   `json:"target_kind"` // own | other | preloaded
	Preload []string `json:"preload,omitempty"`
	Items   []item   `json:"items"`
}

func genA(r *rand.Rand, depth int) scenario {
	n := 3 + r.Intn(6)
	perm := r.Perm(len(pathPool))
	paths := make([]string, 0, n)
	for _, i := range perm[:n] {
		paths = append(paths, pathPool[i])
	}
	sc := scenario{Route: "A"}
	switch r.Intn(3) {
	case 0:
		sc.TKind, sc.Target = "own", paths[0]
	case 1:
		sc.TKind, sc.Target = "other", "example.com/mod/target"
	default:
		sc.TKind, sc.Target = "preloaded", "example.com/mod/target"
		for _, i := range perm[n:min(n+3, len(perm))] {
			sc.Preload = append(sc.Preload, pathPool[i])
		}
	}
	g := &typgen.Gen{R: r, Paths: paths}
	k := 8 + r.Intn(12)
	for i := 0; i < k; i++ {
		e := g.Expr(r.Intn(depth + 1))
		via := "id"
		if r.Intn(3) == 0 {
			via = "sprintf"
		}
		sc.Items = append(sc.Items, item{e, via})
	}
	// aliases
	for i := 0; i < 2; i++ {
		sc.Items = append(sc.Items, item{&typgen.Expr{Kind: "named", Path: paths[r.Intn(len(paths))], Name: "A"}, []string{"alias", "id"}[r.Intn(2)]})
	}
	return sc
}

// ---- reflect route

var reflPaths = []string{catalog.FA, catalog.FB, catalog.FR, "time", "bytes", "net/url", "math/rand", "text/template", "html/template"}
var genericKeys []string

func init() {
	for k := range catalog.Generic {
		genericKeys = append(genericKeys, k)
	}
	sort.Strings(genericKeys)
}

type reflGen struct{ r *rand.Rand }

func (g *reflGen) named(comparableOnly bool) *typgen.Expr {
	if !comparableOnly && g.r.Intn(3) == 0 {
		e, err := typgen.ParseRefExpr(genericKeys[g.r.Intn(len(genericKeys))])
		if err != nil {
			panic(err)
		}
		return e
	}
	for {
		p := reflPaths[g.r.Intn(len(reflPaths))]
		names := catalog.Named[p]
		var ks []string
		for k := range names {
			ks = append(ks, k)
		}
		sort.Strings(ks)
		n := ks[g.r.Intn(len(ks))]
		if comparableOnly && (names[n].Kind() == reflect.Func || names[n].Kind() == reflect.Map || names[n].Kind() == reflect.Struct || names[n].Kind() == reflect.Interface || names[n].Kind() == reflect.Slice) {
			continue
		}
		return &typgen.Expr{Kind: "named", Path: p, Name: n}
	}
}

func (g *reflGen) expr(depth int) *typgen.Expr {
	if depth <= 0 {
		switch g.r.Intn(6) {
		case 0:
			return &typgen.Expr{Kind: "error", Name: "error"}
		case 1:
			return &typgen.Expr{Kind: "any", Name: "any"}
		case 2, 3:
			return &typgen.Expr{Kind: "basic", Name: typgen.Basics[g.r.Intn(len(typgen.Basics))]}
		}
		return g.named(false)
	}
	switch g.r.Intn(9) {
	case 0:
		return &typgen.Expr{Kind: "ptr", Elem: g.expr(depth - 1)}
	case 1:
		return &typgen.Expr{Kind: "slice", Elem: g.expr(depth - 1)}
	case 2:
		return &typgen.Expr{Kind: "array", Len: g.r.Intn(5), Elem: g.expr(depth - 1)}
	case 3:
		var k *typgen.Expr
		if g.r.Intn(2) == 0 {
			k = g.named(true)
		} else {
			k = &typgen.Expr{Kind: "basic", Name: []string{"string", "int", "uint8", "float64", "bool", "rune", "uintptr"}[g.r.Intn(7)]}
		}
		return &typgen.Expr{Kind: "map", Key: k, Elem: g.expr(depth - 1)}
	case 4:
		return &typgen.Expr{Kind: "chan", Elem: g.expr(depth - 1)}
	case 5, 6:
		n := g.r.Intn(4)
		e := &typgen.Expr{Kind: "struct"}
		tags := []string{"", `json:"a"`, `json:"b,omitempty" validate:"@int[0,10]"`, `x:"\"q\""`, `name:"The name. Must be unique."`}
		for i := 0; i < n; i++ {
			e.Fields = append(e.Fields, typgen.Field{Name: fmt.Sprintf("F%d", i), Type: g.expr(depth - 1), Tag: tags[g.r.Intn(len(tags))]})
		}
		return e
	case 7:
		return g.named(false)
	case 8:
		if depth >= 2 {
			// two look-alike struct types in one expression (named leaves stay: they must exist in the compiled catalog)
			return typgen.TwinStructWith(g.r, g.expr, depth, nil)
		}
	}
	return g.expr(depth - 1)
}

func toReflect(e *typgen.Expr) (reflect.Type, error) {
	switch e.Kind {
	case "basic":
		m := map[string]reflect.Type{"bool": reflect.TypeFor[bool](), "int": reflect.TypeFor[int](), "int8": reflect.TypeFor[int8](), "int16": reflect.TypeFor[int16](), "int32": reflect.TypeFor[int32](), "int64": reflect.TypeFor[int64](),
			"uint": reflect.TypeFor[uint](), "uint8": reflect.TypeFor[uint8](), "uint16": reflect.TypeFor[uint16](), "uint32": reflect.TypeFor[uint32](), "uint64": reflect.TypeFor[uint64](), "uintptr": reflect.TypeFor[uintptr](),
			"float32": reflect.TypeFor[float32](), "float64": reflect.TypeFor[float64](), "complex64": reflect.TypeFor[complex64](), "complex128": reflect.TypeFor[complex128](), "string": reflect.TypeFor[string](), "byte": reflect.TypeFor[byte](), "rune": reflect.TypeFor[rune]()}
		return m[e.Name], nil
	case "error":
		return catalog.Error, nil
	case "any":
		return catalog.Any, nil
	case "named":
		if len(e.Args) > 0 {
			s, _ := e.RefString()
			if t, ok := catalog.Generic[s]; ok {
				return t, nil
			}
			return nil, fmt.Errorf("no compiled instantiation %s", s)
		}
		if t, ok := catalog.Named[e.Path][e.Name]; ok {
			return t, nil
		}
		return nil, fmt.Errorf("no compiled type %s.%s", e.Path, e.Name)
	case "ptr", "slice", "array", "chan":
		el, err := toReflect(e.Elem)
		if err != nil {
			return nil, err
		}
		switch e.Kind {
		case "ptr":
			return reflect.PointerTo(el), nil
		case "slice":
			return reflect.SliceOf(el), nil
		case "array":
			return reflect.ArrayOf(e.Len, el), nil
		}
		return reflect.ChanOf(reflect.BothDir, el), nil
	case "map":
		k, err := toReflect(e.Key)
		if err != nil {
			return nil, err
		}
		v, err := toReflect(e.Elem)
		if err != nil {
			return nil, err
		}
		return reflect.MapOf(k, v), nil
	case "struct":
		var fs []reflect.StructField
		for _, f := range e.Fields {
			ft, err := toReflect(f.Type)
			if err != nil {
				return nil, err
			}
			fs = append(fs, reflect.StructField{Name: f.Name, Type: ft, Tag: reflect.StructTag(f.Tag)})
		}
		return reflect.StructOf(fs), nil
	}
	return nil, fmt.Errorf("bad kind")
}

var embV = &typgen.Expr{Kind: "struct", Fields: []typgen.Field{
	{Name: "S", Type: &typgen.Expr{Kind: "named", Path: catalog.FA, Name: "S"}, Embedded: true},
	{Name: "T", Type: &typgen.Expr{Kind: "ptr", Elem: &typgen.Expr{Kind: "named", Path: catalog.FB, Name: "T"}}, Embedded: true, Tag: `json:"t"`},
	{Name: "Name", Type: &typgen.Expr{Kind: "basic", Name: "string"}, Tag: `json:"name"`},
}}

func mustRef(s string) *typgen.Expr {
	e, err := typgen.ParseRefExpr(s)
	if err != nil {
		panic(err)
	}
	return e
}

var embG = &typgen.Expr{Kind: "struct", Fields: []typgen.Field{
	{Name: "List", Type: mustRef(catalog.FA + ".List[" + catalog.FB + ".T]"), Embedded: true},
	{Name: "Pair", Type: &typgen.Expr{Kind: "ptr", Elem: mustRef(catalog.FB + ".Pair[" + catalog.FA + ".T,int]")}, Embedded: true, Tag: `x:"\"q\""`},
	{Name: "Err", Type: &typgen.Expr{Kind: "error", Name: "error"}},
	{Name: "Any", Type: &typgen.Expr{Kind: "any", Name: "any"}},
}}

func genB(r *rand.Rand, depth int) scenario {
	sc := scenario{Route: "B"}
	switch r.Intn(3) {
	case 0:
		sc.TKind, sc.Target = "own", []string{catalog.FA, catalog.FB, "time"}[r.Intn(3)]
	case 1:
		sc.TKind, sc.Target = "other", "example.com/mod/target"
	default:
		sc.TKind, sc.Target = "preloaded", "example.com/mod/target"
		sc.Preload = []string{"example.com/x/rand", "example.com/template", "example.com/fa"}[:1+r.Intn(3)]
	}
	g := &reflGen{r}
	k := 8 + r.Intn(12)
	for i := 0; i < k; i++ {
		via := "id"
		if r.Intn(3) == 0 {
			via = "sprintf"
		}
		sc.Items = append(sc.Items, item{g.expr(r.Intn(depth + 1)), via})
	}
	return sc
}

func check(sc scenario, res *core.Result) (string, string, int) {
	w := typgen.NewWorld()
	var buf bytes.Buffer
	tracker := namer.NewDefaultImportTracker()
	sw := gengo.NewSnippetWriter(&buf, namer.NameSystems{"raw": namer.NewRawNamer(sc.Target, tracker)})
	resolve := func(path, name string) (types.Object, error) {
		p, err := w.Import(path)
		if err != nil {
			return nil, err
		}
		o := p.Scope().Lookup(name)
		if o == nil {
			return nil, fmt.Errorf("no %s in %s", name, path)
		}
		return o, nil
	}
	var cases []typgen.CheckCase
	for _, p := range sc.Preload {
		buf.Reset()
		e := &typgen.Expr{Kind: "named", Path: p, Name: "T"}
		sw.Render(snippet.ID(p + ".T"))
		cases = append(cases, typgen.CheckCase{Rendered: buf.String(), Want: e})
	}
	np := len(cases)
	for i, it := range sc.Items {
		buf.Reset()
		var arg any
		if sc.Route == "A" {
			lp, _ := w.Import(sc.Target)
			tt, err := it.Expr.Types(resolve, lp)
			if err != nil {
				return "harness", err.Error(), i
			}
			arg = tt
			if it.Via == "alias" {
				if _, ok := tt.(*types.Alias); !ok {
					return "harness", "not an alias", i
				}
			} else if it.Expr.Kind == "named" && it.Expr.Name == "A" {
				// as a plain types.Type the alias is transparent
				arg = tt
			}
		} else {
			rt, err := toReflect(it.Expr)
			if err != nil {
				return "harness", err.Error(), i
			}
			arg = rt
		}
		var sn snippet.Snippet
		if it.Via == "sprintf" {
			sn = snippet.Sprintf("%T", arg)
		} else {
			sn = snippet.ID(arg)
		}
		if pk, pv, _ := core.Guard(func() { sw.Render(sn) }); pk {
			return "render-panic", fmt.Sprintf("item %d (%s via %s) panicked: %v", i, it.Expr, it.Via, pv), i
		}
		text := buf.String()
		// qualifiers
		quals, err := typgen.Qualifiers(text)
		if err != nil {
			return "parse", fmt.Sprintf("item %d (%s) rendered %q which is not a Go type expression: %v", i, it.Expr, text, err), i
		}
		var paths, want []string
		it.Expr.Paths(&paths)
		for _, p := range paths {
			if p != sc.Target {
				want = append(want, tracker.Imports()[p])
			}
		}
		if it.Via != "alias" && it.Expr.Kind == "named" && it.Expr.Name == "A" && sc.Route == "A" {
			// ID(types.Type) on an alias renders the aliased type: qualifier is the same package
		}
		if strings.Join(quals, ",") != strings.Join(want, ",") {
			return "qualifiers", fmt.Sprintf("item %d (%s) rendered %q with qualifiers %v, want %v; target %s imports %v", i, it.Expr, text, quals, want, sc.Target, tracker.Imports()), i
		}
		cases = append(cases, typgen.CheckCase{Rendered: text, Want: it.Expr})
		if res != nil {
			res.Inc("renders_route_" + sc.Route)
			fs := map[string]bool{}
			it.Expr.Features(fs)
			for f := range fs {
				res.Inc("feature_" + f)
			}
		}
	}
	bad, fileErrs, src := typgen.Judge(w, sc.Target, tracker.Imports(), cases)
	if len(fileErrs) > 0 {
		return "typecheck-file", fmt.Sprintf("assembled file does not type-check: %v\n%s", fileErrs, clipLines(src, 25)), -1
	}
	if len(bad) > 0 {
		v := bad[0]
		desc := "preload"
		if v.Index >= np {
			desc = sc.Items[v.Index-np].Expr.String() + " via " + sc.Items[v.Index-np].Via
		}
		return "typecheck", fmt.Sprintf("item %d (%s) in target %s (%s) rendered %q: %s", v.Index-np, desc, sc.Target, sc.TKind, cases[v.Index].Rendered, v.Msg), v.Index - np
	}
	if res != nil {
		res.Count("typechecked_items", int64(len(cases)))
		res.Inc("target_kind_" + sc.TKind)
	}
	return "", "", -1
}

func clipLines(s string, n int) string {
	ls := strings.Split(s, "\n")
	if len(ls) > n {
		ls = ls[:n]
	}
	return strings.Join(ls, "\n")
}

func shrinkExpr(e *typgen.Expr, fails func(*typgen.Expr) bool) *typgen.Expr {
	for changed := true; changed; {
		changed = false
		var subs []*typgen.Expr
		subs = append(subs, e.Args...)
		if e.Elem != nil {
			subs = append(subs, e.Elem)
		}
		if e.Key != nil {
			subs = append(subs, e.Key)
		}
		for _, f := range e.Fields {
			subs = append(subs, f.Type)
		}
		for _, s := range subs {
			if fails(s) {
				e, changed = s, true
				break
			}
		}
		if changed {
			continue
		}
		if e.Kind == "struct" && len(e.Fields) > 1 {
			for i := range e.Fields {
				c := *e
				c.Fields = append(append([]typgen.Field{}, e.Fields[:i]...), e.Fields[i+1:]...)
				if fails(&c) {
					e, changed = &c, true
					break
				}
			}
		}
	}
	return e
}

func (p *prop) runScenario(res *core.Result, sc scenario) {
	for _, it := range sc.Items {
		res.Evals++
		if it.Expr.Depth() >= 1 || len(it.Expr.Args) > 0 {
			res.NonTrivial(sc.Route + "|" + sc.TKind + "|" + it.Via + "|" + it.Expr.String())
		}
	}
	o, m, idx := check(sc, res)
	if m == "" {
		return
	}
	keyS := m
	if idx >= 0 && idx < len(sc.Items) {
		it := sc.Items[idx]
		one := func(e *typgen.Expr) scenario {
			return scenario{Route: sc.Route, Target: sc.Target, TKind: sc.TKind, Preload: sc.Preload, Items: []item{{e, it.Via}}}
		}
		fails := func(e *typgen.Expr) bool { o2, m2, _ := check(one(e), nil); return m2 != "" && o2 == o }
		if fails(it.Expr) {
			sh := shrinkExpr(it.Expr, fails)
			_, m2, _ := check(one(sh), nil)
			keyS = fmt.Sprintf("%s %s via %s", sc.Route, sh, it.Via)
			m = m + "\nshrunk: " + m2
		} else {
			keyS = fmt.Sprintf("%s %s via %s (in context)", sc.Route, it.Expr, it.Via)
		}
	}
	res.Fail(o, keyS, m, sc)
}

func (p *prop) Run(c core.Case, w *core.Worker) core.Result {
	res := core.Result{CaseID: c.ID}
	switch c.Kind {
	case "types-route", "reflect-route":
		var pa params
		c.Decode(&pa)
		r := rand.New(rand.NewSource(c.Seed))
		for i := 0; i < pa.N; i++ {
			var sc scenario
			if pa.Route == "A" {
				sc = genA(r, pa.Depth)
			} else {
				sc = genB(r, pa.Depth)
			}
			p.runScenario(&res, sc)
			if i == 0 {
				res.Sample(map[string]any{"route": sc.Route, "target": sc.Target, "target_kind": sc.TKind, "expr": sc.Items[0].Expr.String(), "expr2": sc.Items[1].Expr.String()}, 1)
			}
		}
	case "regressions":
		errT := &typgen.Expr{Kind: "error", Name: "error"}
		scA := scenario{Route: "A", Target: "example.com/mod/target", TKind: "other", Items: []item{
			{&typgen.Expr{Kind: "array", Len: 3, Elem: &typgen.Expr{Kind: "chan", Elem: errT}}, "id"},
			{&typgen.Expr{Kind: "struct", Fields: []typgen.Field{{Name: "Err", Type: errT}}}, "sprintf"},
			{mustRef("example.com/a.Pair[example.com/b.List[example.com/a.Pair[example.com/a.T,example.com/b.U]],example.com/c-d.T]"), "id"},
		}}
		p.runScenario(&res, scA)
		scB := scenario{Route: "B", Target: "example.com/mod/target", TKind: "other", Items: []item{
			{&typgen.Expr{Kind: "map", Key: &typgen.Expr{Kind: "basic", Name: "string"}, Elem: errT}, "id"},
			{mustRef(catalog.FB + ".List[" + catalog.FA + ".Pair[" + catalog.FB + ".List[" + catalog.FA + ".Pair[" + catalog.FA + ".T," + catalog.FB + ".T]]," + catalog.FR + ".T]]"), "id"},
		}}
		p.runScenario(&res, scB)
		// compiled embedding structs
		for name, want := range map[string]*typgen.Expr{"EmbV": embV, "EmbG": embG} {
			for _, target := range []string{"example.com/mod/target", catalog.FA} {
				var buf bytes.Buffer
				tracker := namer.NewDefaultImportTracker()
				sw := gengo.NewSnippetWriter(&buf, namer.NameSystems{"raw": namer.NewRawNamer(target, tracker)})
				sw.Render(snippet.ID(catalog.Structs[name]))
				wd := typgen.NewWorld()
				bad, fe, _ := typgen.Judge(wd, target, tracker.Imports(), []typgen.CheckCase{{Rendered: buf.String(), Want: want}})
				res.Evals++
				res.NonTrivial("emb|" + name + "|" + target)
				res.Inc("compiled_embedding_structs_checked")
				if len(bad) > 0 || len(fe) > 0 {
					res.Fail("typecheck", "B compiled "+name, fmt.Sprintf("compiled struct %s in target %s rendered %q: %v %v", name, target, buf.String(), bad, fe), name)
				}
			}
		}
	}
	return res
}
