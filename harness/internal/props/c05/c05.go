// Package c05: output for a package does not depend on what else is generated in the same run.
package c05

import (
	"fmt"
	"math/rand"
	"os"
	"path/filepath"
	"sort"
	"strings"

	"verif/internal/core"
	"verif/internal/fixture"
	"verif/internal/layout"
	"verif/internal/specgen"
)

func init() { core.Register(&prop{}) }

type prop struct{}

func (*prop) ID() string    { return "C05" }
func (*prop) Level() string { return "exploration" }
func (*prop) Rule() string {
	return "modules with k = 4 packages built to trip per-package state: the packages share type names on purpose, every package needs the runtimedoc helper and deepcopy dependencies (real generators), a scripted stateful generator with a counting New emits a helper once per instance, skips names its instance has already seen and numbers its calls, " +
		"an analysing generator that renders what ResultsOf answers for every function of the package and (asked through it) of its module-local imports - the packages hold diamond-shaped and mutually recursive call chains, with handlers in p2 (imports p3) and p4 (imports p1) calling into them, so that universe-wide memoisation of partial answers shows -, a generator registered as a prototype WITHOUT New whose prototype carries non-zero state (gengo must build a zero instance per package), and every package references a different set of imports whose local names clash across packages (x/model + y/model in p1 but only y/model in p2, only x/model in p3 but y/model + x/model in p4, math/rand + x/rand, text/template + html/template ...). " +
		"All 15 non-empty subsets of the packages are run as direct entrypoints (non-All) in two orders, plus All runs from one entrypoint whose import closure pulls in the others, each from a byte-identical restored tree; the reference runs of {P} alone and every third combined run happen in fresh child processes (so process-global state can neither mask nor fake a difference), the others in the long-lived worker process. Oracles: the files of package P in run S are byte-identical to the files of P in the run {P}, for every P in S; at least one generator instance is created (New call) per executed package; the registered prototype is never used directly. " +
		"Non-trivial = a run with >= 2 packages; distinct by hash of (module, subset, order)."
}
func (*prop) Assumptions() []string {
	return []string{"packages are compared through their own generated files only; gengo.sum is not part of the comparison (it is per run by definition)"}
}
func (*prop) MinDistinct(tier string) int64 {
	if tier == "thorough" {
		return 250
	}
	return 20
}

type params struct {
	N int `json:"n"`
}

func (*prop) Cases(seed int64, tier string) []core.Case {
	nc, n := 8, 1
	if tier == "thorough" {
		nc, n = 96, 1
	}
	var cs []core.Case
	for i := 0; i < nc; i++ {
		cs = append(cs, core.MkCase("modules", params{n}))
	}
	return cs
}

const mod = "example.com/c05"
const depMod = "example.com/dep"

var importSets = [][]string{
	{depMod + "/x/rand.Thing"},
	{"math/rand.Rand", depMod + "/x/rand.Thing"},
	{"crypto/rand.Reader0", "math/rand.Rand", "text/template.Template"},
	{"html/template.Template", "text/template.Template", depMod + "/x/rand.Thing", "math/rand.Rand"},
	{depMod + "/y/rand.Thing", depMod + "/x/rand.Thing"},
	{"bytes.Buffer"},
}

func filesOf(m *fixture.Module, dir string) map[string]string {
	out := map[string]string{}
	ents, _ := os.ReadDir(filepath.Join(m.Root, dir))
	for _, e := range ents {
		if strings.HasPrefix(e.Name(), "zz_generated.") {
			b, _ := m.Read(filepath.Join(dir, e.Name()))
			out[e.Name()] = b
		}
	}
	return out
}

func diff(a, b map[string]string) string {
	var d []string
	for k, v := range a {
		w, ok := b[k]
		if !ok {
			d = append(d, k+" only when run alone")
		} else if v != w {
			al, bl := strings.Split(v, "\n"), strings.Split(w, "\n")
			for i := 0; i < min(len(al), len(bl)); i++ {
				if al[i] != bl[i] {
					d = append(d, fmt.Sprintf("%s line %d: alone %q, together %q", k, i+1, al[i], bl[i]))
					break
				}
			}
			if len(al) != len(bl) {
				d = append(d, fmt.Sprintf("%s: %d lines alone, %d together", k, len(al), len(bl)))
			}
		}
	}
	for k := range b {
		if _, ok := a[k]; !ok {
			d = append(d, k+" only when run together")
		}
	}
	sort.Strings(d)
	return strings.Join(d, "\n")
}

func (p *prop) runModule(c core.Case, w *core.Worker, res *core.Result, r *rand.Rand, idx int) {
	root := filepath.Join(w.Scratch, fmt.Sprintf("c05-%d-%d", c.ID, idx))
	pristine := root + "-pristine"
	defer os.RemoveAll(root)
	defer os.RemoveAll(pristine)
	extra := fmt.Sprintf("\nrequire %s v0.0.0\n\nreplace %s => ./_deps/dep\n", depMod, depMod)
	m, err := fixture.New(w.Scratch, filepath.Base(pristine), mod, "1.24", extra)
	if err != nil {
		res.Inconclusive = append(res.Inconclusive, err.Error())
		return
	}
	m.MustWrite("_deps/dep/go.mod", "module "+depMod+"\n\ngo 1.18\n")
	m.MustWrite("_deps/dep/x/rand/r.go", "package rand\n\ntype Thing struct{}\n")
	m.MustWrite("_deps/dep/y/rand/r.go", "package rand\n\ntype Thing struct{}\n")
	m.MustWrite("_deps/dep/x/model/m.go", "package model\n\ntype Thing struct{}\n\ntype Box[T any] struct{ V T }\n\ntype Two[A any, B any] struct {\n\tA A\n\tB B\n}\n")
	m.MustWrite("_deps/dep/y/model/m.go", "package model\n\ntype Thing struct{}\n")
	// package-level tags differ per package on purpose: a tag of an earlier package must not enable (or
	// parameterise) a generator in a later one; the run also passes non-nil Globals
	tagSets := [][]string{
		{"+gengo:state", "+gengo:proto", "+gengo:runtimedoc", "+gengo:deepcopy", "+gengo:state:opt=p1", "+gengo:analyze"},
		{"+gengo:state", "+gengo:runtimedoc", "+gengo:analyze"},
		{"+gengo:proto", "+gengo:deepcopy", "+gengo:state:opt=p3", "+gengo:analyze"},
		{"+gengo:state", "+gengo:proto", "+gengo:runtimedoc", "+gengo:deepcopy", "+gengo:analyze"},
	}
	globals := map[string][]string{"gengo:unrelated": {"x"}, "gengo:other:opt": {"g"}}
	dirs := []string{"p1", "p2", "p3", "p4"}
	// p4 imports p1..p3 so that an All run from p4 pulls the others in
	state := specgen.GenSpec{Name: "state", Alias: true, Pkg: map[string]specgen.Behav{}, Def: specgen.Behav{Mode: "stateful"}}
	perm := r.Perm(len(importSets))
	for i, d := range dirs {
		pk := layout.Pkg{Dir: d, Name: d, Types: []string{"Shared1", "Shared2", fmt.Sprintf("Own%d", i)}, Tags: tagSets[i],
			// alias types with names shared across packages: the stateful generator also implements AliasGenerator
			Aliases: []string{"AliasShared", fmt.Sprintf("AliasOwn%d", i)}}
		if d == "p4" {
			pk.Imports = []string{mod + "/p1", mod + "/p2", mod + "/p3"}
		}
		pk.Write(m)
		// functions for the analysing generator (it asks ResultsOf for every function of the package and of its
		// imports): every package has the same "store" functions (a diamond: Load calls Check, mutual recursion), p2
		// and p4 have "handlers" that call into an imported package's store functions in an order that visits a
		// callee before the caller that also calls it. p2 imports p3 (importer sorts first), p4 imports p1 (importer
		// sorts last): whichever order packages are processed in, what one package's analysis left behind must not
		// change another's.
		fsrc := "package " + d + "\n\n"
		if dep := map[string]string{"p2": "p3", "p4": "p1"}[d]; dep != "" {
			fsrc += "import store \"" + mod + "/" + dep + "\"\n\n" +
				"func Handle(n int) error {\n\tif err := store.Check(n); err != nil {\n\t\treturn err\n\t}\n\treturn store.Load(n)\n}\n\n" +
				"func HandleMutual(n int) error {\n\tif err := store.Mutual2(n); err != nil {\n\t\treturn err\n\t}\n\treturn store.Mutual1(n)\n}\n\n" +
				"func HandleValue(n int) (any, error) {\n\tif n > 0 {\n\t\treturn store.Value(n)\n\t}\n\treturn nil, store.Check(n)\n}\n\n"
		}
		// the same named struct type as a field of a holder in ITS OWN package and of a holder in an importing package
		// (deepcopy is enabled in p1, p3, p4): what a generator learns about the type while generating one package
		// (local or foreign?) must not carry over to the other
		// (doc lines whose first word starts with the declared name again - removing the leading name twice eats into
		// the text: "Meta Metadata ..." -> "Metadata ..." -> "data ...")
		fsrc += "// Meta Metadata of things.\ntype Meta struct {\n\t// Labels Labelset attached.\n\tLabels map[string]string\n\t// N Number of them.\n\tN int\n}\n\n// MetaHolder MetaHolderish.\ntype MetaHolder struct {\n\t// M MM.\n\tM Meta\n\tL []string\n}\n\n"
		if dep := map[string]string{"p2": "p3", "p4": "p1"}[d]; dep != "" {
			fsrc += "type ForeignHolder struct {\n\tM    store.Meta\n\tName string\n}\n\n"
		}
		fsrc += "type Mixed struct{ n int }\n\nfunc (m Mixed) V1() int { return m.n }\n\nfunc (m *Mixed) P1() { m.n++ }\n\nfunc (m Mixed) V2() int { return m.n + 2 }\n\nfunc (m *Mixed) P2() { m.n += 2 }\n\nfunc (m Mixed) V3() int { return m.n + 3 }\n\n"
		fsrc += "type NotFound struct{}\n\nfunc (*NotFound) Error() string { return \"not found\" }\n\ntype Invalid struct{}\n\nfunc (*Invalid) Error() string { return \"invalid\" }\n\n" +
			"func Check(n int) error {\n\tif n < 0 {\n\t\treturn &Invalid{}\n\t}\n\treturn nil\n}\n\n" +
			"func Load(n int) error {\n\tif err := Check(n); err != nil {\n\t\treturn err\n\t}\n\tif n == 0 {\n\t\treturn &NotFound{}\n\t}\n\treturn nil\n}\n\n" +
			"func Mutual1(n int) error {\n\tif n == 0 {\n\t\treturn &Invalid{}\n\t}\n\treturn Mutual2(n - 1)\n}\n\n" +
			"func Mutual2(n int) error {\n\tif n == 0 {\n\t\treturn &NotFound{}\n\t}\n\treturn Mutual1(n - 1)\n}\n\n" +
			"func Value(n int) (any, error) {\n\tif n == 1 {\n\t\treturn \"one\", nil\n\t}\n\tif err := Load(n); err != nil {\n\t\treturn nil, err\n\t}\n\treturn n, Check(n)\n}\n"
		m.MustWrite(filepath.Join(d, "funcs.go"), fsrc)
		// outdated outputs of generators that are NOT enabled for this package (and of one that no longer exists): they
		// must be removed whatever else is generated in the same run - other packages do get files of the same names
		for _, gn := range []string{"state", "proto", "runtimedoc", "deepcopy", "gone"} {
			enabled := false
			for _, t := range tagSets[i] {
				if t == "+gengo:"+gn {
					enabled = true
				}
			}
			if !enabled {
				m.MustWrite(filepath.Join(d, "zz_generated."+gn+".go"), "package "+d+"\n\n// outdated output of "+gn+"\n")
			}
		}
		// a documented struct with a same-package struct field: runtimedoc helper + deepcopy dependency
		m.MustWrite(filepath.Join(d, "doc_types.go"), fmt.Sprintf("package %s\n\n// Doc%d has docs.\ntype Doc%d struct {\n\t// Inner field\n\tInner Shared1\n\t// Name of it\n\tName string\n\tTags []string\n\tM map[string]int\n\tEmb%d\n}\n\n// Emb%d is embedded.\ntype Emb%d struct {\n\t// X marks\n\tX int\n}\n", d, i, i, i, i, i))
		// fixed collision structure (names chosen under a collision in a package processed earlier must not leak into
		// a later package, in both directions), plus random extra references
		imps := append([]string{}, [][]string{
			{"math/rand.Rand", depMod + "/x/rand.Thing", depMod + "/x/model.Thing", depMod + "/y/model.Thing"},
			{depMod + "/x/rand.Thing", depMod + "/y/model.Thing"},
			{depMod + "/y/rand.Thing", "text/template.Template", depMod + "/x/model.Thing"},
			{depMod + "/x/rand.Thing", depMod + "/y/rand.Thing", "html/template.Template", "text/template.Template", depMod + "/y/model.Thing", depMod + "/x/model.Thing"},
		}[i]...)
		for _, s := range importSets[perm[i]] {
			if strings.HasSuffix(s, "Reader0") || r.Intn(2) == 0 {
				continue
			}
			dup := false
			for _, x := range imps {
				if x == s {
					dup = true
				}
			}
			if !dup {
				imps = append(imps, s)
			}
		}
		// the SAME instantiated generic type named in several packages of a run: with an argument of the package
		// itself (unqualified there) and with p1's type as argument in every package (own in p1, foreign elsewhere)
		imps = append(imps,
			depMod+"/x/model.Box["+mod+"/"+d+".Shared1]",
			depMod+"/x/model.Box["+mod+"/p1.Shared1]",
			depMod+"/x/model.Two["+mod+"/p1.Shared2,"+depMod+"/x/model.Box["+mod+"/"+d+".Shared2]]")
		state.Pkg[mod+"/"+d] = specgen.Behav{Mode: "stateful", Salt: "s", Imports: imps}
	}
	gens := []specgen.GenSpec{state, {Name: "analyze", Def: specgen.Behav{Mode: "analyze"}}, {Name: "proto", Proto: true}, {Name: "runtimedoc", Real: true}, {Name: "deepcopy", Real: true}}
	restore := func() *fixture.Module {
		_ = os.RemoveAll(root)
		if err := fixture.CopyTree(pristine, root); err != nil {
			panic(err)
		}
		return &fixture.Module{Root: root, Path: mod, GoVersion: "1.24"}
	}
	type obs struct {
		files map[string]map[string]string
		news  map[string]int
		err   string
		proto bool
		exec  int
	}
	run := func(entries []string, all bool, child bool) obs {
		mm := restore()
		args := specgen.Args{Entrypoint: entries, OutputFileBaseName: "zz_generated", All: all, Globals: globals}
		var rr specgen.Result
		if child {
			// a fresh process: no process-global state of earlier runs can mask or fake a difference
			rr = specgen.RunChild(w.Scratch, specgen.RunSpec{Dir: mm.Root, Args: args, Gens: gens})
			res.Inc("fresh_process_runs")
		} else {
			rr = specgen.RunInProcess(mm.Root, args, gens)
		}
		res.Inc("gengo_runs")
		o := obs{files: map[string]map[string]string{}, news: map[string]int{}}
		if rr.Failed {
			o.err = rr.Err + rr.Panic + rr.ExitStatus
			return o
		}
		for _, e := range rr.Events {
			switch {
			case e.Kind == "new":
				o.news[e.Gen]++
			case e.Kind == "prototype-used":
				o.proto = true
			case e.Kind == "hook" && e.Name == "pkg:start":
				o.exec++
			}
		}
		for _, d := range dirs {
			o.files[d] = filesOf(mm, d)
		}
		return o
	}
	alone := map[string]map[string]string{}
	for _, d := range dirs {
		o := run([]string{"./" + d}, false, true)
		if o.err != "" {
			res.Fail("execute", "execute-error", "Execute failed for "+d+" alone: "+clip(o.err, 800), nil)
			return
		}
		if len(o.files[d]) < 2 {
			res.Inconclusive = append(res.Inconclusive, fmt.Sprintf("package %s alone produced only %d files", d, len(o.files[d])))
		}
		alone[d] = o.files[d]
	}
	nchecks := 0
	check := func(entries []string, all bool, expectPkgs []string) {
		nchecks++
		// every third run in a fresh process, the others in this (long-lived) worker process
		o := run(entries, all, nchecks%3 == 0)
		variant := fmt.Sprintf("entrypoints %v all=%v", entries, all)
		if dd := os.Getenv("VERIF_DUMP"); dd != "" && idx == 0 {
			for d, fs := range o.files {
				for fn, body := range fs {
					_ = os.MkdirAll(filepath.Join(dd, fmt.Sprint(nchecks), d), 0o755)
					_ = os.WriteFile(filepath.Join(dd, fmt.Sprint(nchecks), d, fn), []byte(body), 0o644)
				}
			}
			_ = os.WriteFile(filepath.Join(dd, fmt.Sprint(nchecks), "variant"), []byte(variant), 0o644)
		}
		res.Evals++
		if len(expectPkgs) >= 2 {
			res.NonTrivial(fmt.Sprintf("%d|%d|%s", c.Seed, idx, variant))
		}
		if o.err != "" {
			res.Fail("execute", "execute-error", variant+": "+clip(o.err, 800), nil)
			return
		}
		for _, d := range expectPkgs {
			res.Inc("package_outputs_compared_with_alone_run")
			if df := diff(alone[d], o.files[d]); df != "" {
				res.Fail("independent-of-run", fmt.Sprintf("%d packages all=%v", len(expectPkgs), all), fmt.Sprintf("%s: the files of %s differ from the run of %s alone:\n%s", variant, d, d, clip(df, 1200)), nil)
			}
		}
		// (how many packages the run started is only observed: a package that should have been generated and was not
		// shows as a difference to its alone run, and writing into unselected packages is C07's concern)
		if o.exec != len(expectPkgs) {
			res.Inc("runs_that_started_another_number_of_packages_than_selected")
		}
		// at least one fresh instance per executed package (more are harmless: what matters is that no instance serves
		// two packages, which the stateful generator's output shows)
		if o.news["state"] < o.exec {
			res.Fail("fresh-instance-per-package", "New-count", fmt.Sprintf("%s: New of the stateful generator was called %d times for %d executed packages", variant, o.news["state"], o.exec), nil)
		}
		if o.proto {
			res.Fail("fresh-instance-per-package", "prototype-used", variant+": the registered prototype of a generator was used for a package", nil)
		}
	}
	// all 15 non-empty subsets as direct entrypoints, two orders
	for mask := 1; mask < 16; mask++ {
		var sub []string
		for i, d := range dirs {
			if mask&(1<<i) != 0 {
				sub = append(sub, d)
			}
		}
		if len(sub) < 2 {
			continue
		}
		fw := make([]string, len(sub))
		bw := make([]string, len(sub))
		for i, d := range sub {
			fw[i] = "./" + d
			bw[len(sub)-1-i] = "./" + d
		}
		check(fw, false, sub)
		check(bw, false, sub)
	}
	// All from one entrypoint whose closure pulls in the others
	check([]string{"./p4"}, true, dirs)
	check([]string{"./p2", "./p4"}, true, dirs)
	check([]string{"./p1", "./p3"}, true, []string{"p1", "p3"})
	if idx == 0 {
		var fn []string
		for k := range alone["p2"] {
			fn = append(fn, k)
		}
		sort.Strings(fn)
		res.Sample(map[string]any{"packages": dirs, "files_of_p2_alone": fn, "imports_of_p2": state.Pkg[mod+"/p2"].Imports, "subsets_run": 22 + 3}, 1)
	}
}

// runSilent: packages in which the stateful generator is called for every type, changes its state and renders nothing
// (s0, s2) between packages in which it renders (s1, s3): an instance that rendered nothing is still a used instance.
func (p *prop) runSilent(c core.Case, w *core.Worker, res *core.Result, r *rand.Rand, idx int) {
	root := filepath.Join(w.Scratch, fmt.Sprintf("c05s-%d-%d", c.ID, idx))
	pristine := root + "-pristine"
	defer os.RemoveAll(root)
	defer os.RemoveAll(pristine)
	m, err := fixture.New(w.Scratch, filepath.Base(pristine), mod, "1.24")
	if err != nil {
		res.Inconclusive = append(res.Inconclusive, err.Error())
		return
	}
	dirs := []string{"s0", "s1", "s2", "s3"}
	state := specgen.GenSpec{Name: "state", Alias: true, Pkg: map[string]specgen.Behav{}, Def: specgen.Behav{Mode: "stateful"}}
	for i, d := range dirs {
		pk := layout.Pkg{Dir: d, Name: d, Types: []string{"Shared1", "Shared2", fmt.Sprintf("Own%d", i)}, Tags: []string{"+gengo:state", "+gengo:proto"},
			Aliases: []string{"AliasShared"}}
		pk.Write(m)
		mode := "stateful"
		if i%2 == 0 {
			mode = "stateful-silent"
		}
		state.Pkg[mod+"/"+d] = specgen.Behav{Mode: mode, Salt: "s", Imports: []string{"bytes.Buffer"}}
	}
	gens := []specgen.GenSpec{state, {Name: "proto", Proto: true}}
	run := func(entries []string, child bool) (map[string]map[string]string, string) {
		_ = os.RemoveAll(root)
		if err := fixture.CopyTree(pristine, root); err != nil {
			panic(err)
		}
		mm := &fixture.Module{Root: root, Path: mod, GoVersion: "1.24"}
		args := specgen.Args{Entrypoint: entries, OutputFileBaseName: "zz_generated"}
		var rr specgen.Result
		if child {
			rr = specgen.RunChild(w.Scratch, specgen.RunSpec{Dir: mm.Root, Args: args, Gens: gens})
			res.Inc("fresh_process_runs")
		} else {
			rr = specgen.RunInProcess(mm.Root, args, gens)
		}
		res.Inc("gengo_runs")
		res.Inc("runs_with_packages_where_a_generator_renders_nothing")
		if rr.Failed {
			return nil, rr.Err + rr.Panic + rr.ExitStatus
		}
		out := map[string]map[string]string{}
		for _, d := range dirs {
			out[d] = filesOf(mm, d)
		}
		return out, ""
	}
	alone := map[string]map[string]string{}
	for _, d := range dirs {
		o, e := run([]string{"./" + d}, true)
		if e != "" {
			res.Fail("execute", "execute-error", "Execute failed for "+d+" alone: "+clip(e, 800), nil)
			return
		}
		alone[d] = o[d]
	}
	if len(alone["s1"]) == 0 || len(alone["s3"]) == 0 {
		res.Inconclusive = append(res.Inconclusive, "the rendering packages of the silent scenario produced no file when run alone")
		return
	}
	n := 0
	for _, sub := range [][]string{{"s0", "s1"}, {"s1", "s2"}, {"s0", "s1", "s2", "s3"}, {"s0", "s2", "s3"}, {"s1", "s2", "s3"}, {"s0", "s3"}} {
		for _, rev := range []bool{false, true} {
			entries := make([]string, len(sub))
			for i, d := range sub {
				k := i
				if rev {
					k = len(sub) - 1 - i
				}
				entries[k] = "./" + d
			}
			n++
			o, e := run(entries, n%3 == 0)
			variant := fmt.Sprintf("silent scenario, entrypoints %v", entries)
			res.Evals++
			res.NonTrivial(fmt.Sprintf("%d|%d|%s", c.Seed, idx, variant))
			if e != "" {
				res.Fail("execute", "execute-error", variant+": "+clip(e, 800), nil)
				continue
			}
			for _, d := range sub {
				res.Inc("package_outputs_compared_with_alone_run")
				if df := diff(alone[d], o[d]); df != "" {
					res.Fail("independent-of-run", fmt.Sprintf("%d packages, some silent", len(sub)), fmt.Sprintf("%s: the files of %s differ from the run of %s alone:\n%s", variant, d, d, clip(df, 1200)), nil)
				}
			}
		}
	}
}

// runWorkspace: one run spanning two modules of a go.work workspace whose go.mod files differ in what the formatter
// cares about (go directive on either side of 1.13: 0644 vs 0o644; a module path without a dot: import grouping).
// Each module's package alone vs both together, both orders.
func (p *prop) runWorkspace(c core.Case, w *core.Worker, res *core.Result, r *rand.Rand, idx int) {
	root := filepath.Join(w.Scratch, fmt.Sprintf("c05ws-%d-%d", c.ID, idx))
	pristine := root + "-pristine"
	defer os.RemoveAll(root)
	defer os.RemoveAll(pristine)
	type wsmod struct{ dir, path, gov string }
	mods := []wsmod{{"alpha", "example.com/alpha", "1.24"}, {"beta", "legacy/beta", "1.12"}, {"gamma", "corp/gamma/v2", []string{"1.18", "1.21", "1.24"}[r.Intn(3)]}}
	r.Shuffle(len(mods), func(i, j int) { mods[i], mods[j] = mods[j], mods[i] })
	mods = mods[:2+r.Intn(2)]
	m := &fixture.Module{Root: pristine, Path: "workspace", GoVersion: "1.24"}
	work := "go 1.24\n\nuse (\n"
	gs := specgen.GenSpec{Name: "fmtprobe", Pkg: map[string]specgen.Behav{}, Def: specgen.Behav{Mode: "render"}}
	for _, wm := range mods {
		work += "\t./" + wm.dir + "\n"
		m.MustWrite(wm.dir+"/go.mod", "module "+wm.path+"\n\ngo "+wm.gov+"\n")
		m.MustWrite(wm.dir+"/pkg/types.go", "// +gengo:fmtprobe\npackage pkg\n\ntype One struct{ A int }\n\ntype Two int\n")
		m.MustWrite(wm.dir+"/kinds/kinds.go", "package kinds\n\ntype Kind string\n")
		gs.Pkg[wm.path+"/pkg"] = specgen.Behav{Mode: "render", Salt: "s", Imports: []string{"os.FileMode", wm.path + "/kinds.Kind", "bytes.Buffer"}, Code: "var _ = 0644"}
	}
	work += ")\n"
	m.MustWrite("go.work", work)
	run := func(entries []string) (map[string]map[string]string, string) {
		_ = os.RemoveAll(root)
		if err := fixture.CopyTree(pristine, root); err != nil {
			panic(err)
		}
		mm := &fixture.Module{Root: root, Path: "workspace", GoVersion: "1.24"}
		rr := specgen.RunChild(w.Scratch, specgen.RunSpec{Dir: root, Args: specgen.Args{Entrypoint: entries, OutputFileBaseName: "zz_generated"}, Gens: []specgen.GenSpec{gs}, Workspace: true})
		res.Inc("gengo_runs")
		res.Inc("workspace_runs")
		if rr.Failed {
			return nil, rr.Err + rr.Panic + rr.ExitStatus
		}
		out := map[string]map[string]string{}
		for _, wm := range mods {
			out[wm.dir] = filesOf(mm, wm.dir+"/pkg")
		}
		return out, ""
	}
	alone := map[string]map[string]string{}
	for _, wm := range mods {
		o, errS := run([]string{"./" + wm.dir + "/pkg"})
		if errS != "" {
			res.Inconclusive = append(res.Inconclusive, "workspace run of "+wm.dir+" alone failed: "+clip(errS, 600))
			return
		}
		if len(o[wm.dir]) == 0 {
			res.Inconclusive = append(res.Inconclusive, "workspace run of "+wm.dir+" alone produced no file")
			return
		}
		alone[wm.dir] = o[wm.dir]
	}
	for _, rev := range []bool{false, true} {
		var entries []string
		for _, wm := range mods {
			entries = append(entries, "./"+wm.dir+"/pkg")
		}
		if rev {
			for i, j := 0, len(entries)-1; i < j; i, j = i+1, j-1 {
				entries[i], entries[j] = entries[j], entries[i]
			}
		}
		o, errS := run(entries)
		res.Evals++
		variant := fmt.Sprintf("workspace entrypoints %v", entries)
		res.NonTrivial(fmt.Sprintf("%d|%d|%s", c.Seed, idx, variant))
		if errS != "" {
			res.Fail("execute", "execute-error workspace", variant+": "+clip(errS, 800), nil)
			continue
		}
		for _, wm := range mods {
			res.Inc("package_outputs_compared_with_alone_run")
			if df := diff(alone[wm.dir], o[wm.dir]); df != "" {
				res.Fail("independent-of-run", "workspace of modules", fmt.Sprintf("%s: the files of %s/pkg (module %s, go %s) differ from the run of that package alone:\n%s", variant, wm.dir, wm.path, wm.gov, clip(df, 1200)), nil)
			}
		}
	}
}

func clip(s string, n int) string {
	if len(s) <= n {
		return s
	}
	return s[:n] + "…"
}

func (p *prop) Run(c core.Case, w *core.Worker) core.Result {
	res := core.Result{CaseID: c.ID}
	var pa params
	c.Decode(&pa)
	r := rand.New(rand.NewSource(c.Seed))
	for i := 0; i < pa.N; i++ {
		p.runModule(c, w, &res, r, i)
		p.runWorkspace(c, w, &res, r, i)
		p.runSilent(c, w, &res, r, i)
	}
	return res
}
