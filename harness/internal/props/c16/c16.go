// Package c16: runtimedoc output returns the source documentation at run time (compiled check program).
package c16

import (
	"bytes"
	"fmt"
	"math/rand"
	"os"
	"os/exec"
	"path/filepath"
	"regexp"
	"strconv"
	"strings"

	"verif/internal/core"
	"verif/internal/fixture"
	"verif/internal/specgen"
)

func init() { core.Register(&prop{}) }

type prop struct{}

func (*prop) ID() string    { return "C16" }
func (*prop) Level() string { return "exploration" }
func (*prop) Rule() string {
	return "seeded packages of exported / unexported structs (plain, generic, embedding covered structs by value and by pointer, embedding uncovered ones), fields exported / unexported / multi-name / of anonymous or empty struct type / of named struct types with only unexported fields (time.Time, sync.Mutex, a local opaque struct) / of a named empty struct type, defined scalar / map / slice / func types and interfaces; doc text per type and field drawn from a hostile alphabet (double and single quotes, backslashes, backquotes, %v %%, @name and name' in the middle of a line, Unicode, tabs, an interior blank comment line, tag lines at any position, a leading type/field name, block comments) " +
		"and trailing comments on neighbouring lines; the package is enabled by a package-doc tag or by per-type tags. The real runtimedoc generator runs through Execute; the harness then writes an in-package _test.go whose expectation table is derived from the text it wrote (tag lines removed, leading name trimmed, lines trimmed) and runs `go test`: " +
		"the package must compile; for every covered type (&T{}).RuntimeDoc() == (doc, true); RuntimeDoc(f) for every listed exported field == (its doc, true); promoted fields of covered embedded structs are answered by delegation; fields of anonymous / empty struct type, unexported fields and unknown names on structs == (nil, false). " +
		"Non-trivial = a type or field whose doc contains at least one hostile fragment, a tag line, an interior blank line or a leading name, or a delegation / negative query; distinct by hash of (kind of query, doc text)."
}
func (*prop) Assumptions() []string {
	return []string{
		"[[path]] in doc text triggers the embed feature and is not generated; embedded fields carry no doc of their own (the prefix feature is not part of the statement); name queries are only asserted on struct types; embedded non-struct types are not generated",
		"expected doc = the comment's non-tag lines in order, interior blank lines kept; comments never have leading, trailing or consecutive blank lines (go/ast normalises those)",
		"embedded pointer fields are non-nil in the queried value",
		"trusted: the Go compiler and the generated test's string comparison",
	}
}
func (*prop) MinDistinct(tier string) int64 {
	if tier == "thorough" {
		return 900
	}
	return 100
}

type params struct {
	N int `json:"n"`
}

func (*prop) Cases(seed int64, tier string) []core.Case {
	nc, n := 24, 5
	if tier == "thorough" {
		nc, n = 96, 16
	}
	var cs []core.Case
	for i := 0; i < nc; i++ {
		cs = append(cs, core.MkCase("packages", params{n}))
	}
	return cs
}

const mod = "example.com/c16"

var fragments = []string{
	"plain words", `with "double quotes"`, `it's`, `back\slash \n not newline`, "a `backquote` here", "100%v done %% %d", "mail@example.com and @name in the middle", "name' apostrophe", "世界 ünïcode é",
	"tab\there", "/* not a block */", "// double slash", "x = y + z", "{braces} [brackets] (parens)", "trailing dot.", "UPPER lower 123", "a;b,c:d", "<html>&amp;</html>", "$VAR ${x}", "#hash ~tilde ^caret |pipe",
	// lines that START with a non-ASCII character whose code point ends in the byte of '+' or '@' (U+0440, U+042B, U+592B)
	"размер буфера в байтах", "Ыстория", "夫妻 doc line", "＋ fullwidth plus", "＠ fullwidth at",
}

type docSpec struct {
	comment []string // source comment lines (without "// ")
	expect  []string // expected doc lines before name trimming
	block   bool
	hostile bool
}

func genDoc(r *rand.Rand, names []string) docSpec {
	var d docSpec
	switch r.Intn(8) {
	case 0:
		return d // no doc
	case 1:
		d.block = true
		t := fragments[r.Intn(len(fragments))]
		if strings.Contains(t, "*/") {
			t = "plain block"
		}
		d.comment = []string{t}
		d.expect = []string{strings.TrimSpace(t)}
		d.hostile = true
		return d
	}
	n := 1 + r.Intn(4)
	prevBlank := true
	for i := 0; i < n; i++ {
		switch x := r.Intn(10); {
		case x == 0 && !prevBlank && i < n-1:
			d.comment = append(d.comment, "")
			d.expect = append(d.expect, "")
			prevBlank = true
			d.hostile = true
			continue
		case x == 1:
			d.comment = append(d.comment, fmt.Sprintf("+k%d=%s", r.Intn(3), fragments[r.Intn(len(fragments))]))
			d.hostile = true
		case x == 2:
			d.comment = append(d.comment, fmt.Sprintf("@tag%d value", r.Intn(3)))
			d.hostile = true
		case x == 3 && i == 0 && len(names) > 0:
			// leading name
			nm := names[r.Intn(len(names))]
			rest := fragments[r.Intn(len(fragments))]
			d.comment = append(d.comment, nm+" "+rest)
			d.expect = append(d.expect, nm+" "+rest)
			d.hostile = true
		case x == 5 && i == 0 && len(names) > 0:
			// the text after the leading name starts with the name again ("Op Operation to apply")
			nm := names[0]
			d.comment = append(d.comment, nm+" "+nm+"eration to apply "+nm)
			d.expect = append(d.expect, nm+" "+nm+"eration to apply "+nm)
			d.hostile = true
		case x == 4 && i == 0 && len(names) > 0:
			// only the name: the first line disappears
			d.comment = append(d.comment, names[0])
			d.expect = append(d.expect, names[0])
			d.hostile = true
		default:
			t := fragments[r.Intn(len(fragments))]
			if r.Intn(3) == 0 {
				t = t + " " + fragments[r.Intn(len(fragments))]
			}
			d.comment = append(d.comment, t)
			d.expect = append(d.expect, t)
			if t != "plain words" {
				d.hostile = true
			}
		}
		prevBlank = false
	}
	// a comment must not end with a blank line
	for len(d.comment) > 0 && d.comment[len(d.comment)-1] == "" {
		d.comment = d.comment[:len(d.comment)-1]
		d.expect = d.expect[:len(d.expect)-1]
	}
	return d
}

func (d docSpec) write(b *strings.Builder, ind string) {
	if d.block && len(d.comment) == 1 {
		fmt.Fprintf(b, "%s/* %s */\n", ind, d.comment[0])
		return
	}
	for _, l := range d.comment {
		if l == "" {
			fmt.Fprintf(b, "%s//\n", ind)
		} else {
			fmt.Fprintf(b, "%s// %s\n", ind, l)
		}
	}
}

// expectedFor applies the statement's rule: tag lines excluded (done), leading name removed.
func (d docSpec) expectedFor(name string) []string {
	ex := append([]string{}, d.expect...)
	for i := range ex {
		ex[i] = strings.Trim(ex[i], " ")
	}
	// a blank line that is now first/last because tag lines around it were removed stays (lines minus the tag lines),
	// but go/ast drops leading/trailing blank lines of the whole comment - the generator never produces those.
	if len(ex) > 0 {
		ex[0] = strings.TrimSpace(strings.TrimPrefix(ex[0], name))
		if ex[0] == "" {
			ex = ex[1:]
		}
	}
	return ex
}

type field struct {
	names    []string
	typ      string
	doc      docSpec
	listed   bool // answered by the switch
	embedded string
	embPtr   bool
}

type typ struct {
	name     string
	kind     string // struct generic-struct scalar map slice func interface
	doc      docSpec
	fields   []field
	enabled  bool
	exported bool
	covered  bool
	decoyTr  string
}

type query struct {
	Type    string
	Expr    string // constructor expression
	Names   []string
	Want    []string
	OK      bool
	Kind    string
	Hostile bool
	// Prefixed: answered by delegation through an embedding that carries a doc comment of its own - the generated
	// helper may put that comment's first line in front of the answer's first line (the statement is silent on it):
	// judged up to such a prefix
	Prefixed bool
}

func lit(ss []string) string {
	if ss == nil {
		return "[]string(nil)"
	}
	var q []string
	for _, s := range ss {
		q = append(q, strconv.Quote(s))
	}
	return "[]string{" + strings.Join(q, ", ") + "}"
}

type pkgGen struct {
	r    *rand.Rand
	name string
	n    int
	ts   []*typ
}

func (g *pkgGen) fname(p string) string {
	g.n++
	return fmt.Sprintf("%s%d", p, g.n)
}

func (g *pkgGen) generate(pkgLevel bool) (src string, queries []query) {
	r := g.r
	var b strings.Builder
	if pkgLevel {
		b.WriteString("// +gengo:runtimedoc\n")
	}
	fmt.Fprintf(&b, "package %s\n\nimport (\n\t\"sync\"\n\t\"time\"\n)\n\nvar (\n\t_ sync.Mutex\n\t_ time.Time\n)\n\n// c16opaque has only unexported fields.\ntype c16opaque struct {\n\ta int\n\tb string\n}\n\ntype c16nothing struct{}\n\n", g.name)
	nt := 4 + r.Intn(6)
	var coveredStructs []*typ
	for i := 0; i < nt; i++ {
		t := &typ{}
		t.exported = r.Intn(5) != 0
		if t.exported {
			t.name = g.fname("T")
		} else {
			t.name = g.fname("t")
		}
		t.kind = []string{"struct", "struct", "struct", "generic-struct", "scalar", "map", "slice", "func", "interface", "struct"}[r.Intn(10)]
		t.doc = genDoc(r, []string{t.name})
		t.enabled = pkgLevel || r.Intn(3) != 0
		if !pkgLevel && t.enabled {
			t.doc.comment = append(t.doc.comment, "+gengo:runtimedoc")
		}
		// decoy: trailing comment on the line above an undocumented type (must not become its doc)
		if len(t.doc.comment) == 0 && r.Intn(2) == 0 {
			t.decoyTr = "decoy trailing comment " + fragments[r.Intn(len(fragments))]
			switch r.Intn(3) {
			case 0:
				fmt.Fprintf(&b, "var %s int // %s\n", g.fname("decoyVar"), t.decoyTr)
			case 1:
				// the comment trails the CLOSING line of a multi-line declaration
				fmt.Fprintf(&b, "var %s = []int{\n\t1,\n} // %s\n", g.fname("decoyVar"), t.decoyTr)
			case 2:
				fmt.Fprintf(&b, "type %s struct {\n\ta int\n} // %s\n", g.fname("decoyType"), t.decoyTr)
			}
		} else {
			t.doc.write(&b, "")
		}
		switch t.kind {
		case "struct", "generic-struct":
			if t.kind == "generic-struct" {
				fmt.Fprintf(&b, "type %s[P any] struct {\n", t.name)
			} else {
				fmt.Fprintf(&b, "type %s struct {\n", t.name)
			}
			nf := r.Intn(6)
			hasExported := false
			prevTrailing := false
			for j := 0; j < nf; j++ {
				var f field
				multiLine := false
				switch r.Intn(9) {
				case 0:
					f.names = []string{g.fname("unexp")}
					f.names[0] = strings.ToLower(f.names[0][:1]) + f.names[0][1:]
					f.typ = "int"
				case 1:
					f.names = []string{g.fname("F"), g.fname("G")}
					f.typ = "string"
					f.listed = true
				case 2:
					f.names = []string{g.fname("Anon")}
					f.typ = "struct{ X int }"
					if r.Intn(2) == 0 {
						f.typ = "struct {\n\t\tX int\n\t}"
						multiLine = true
					}
				case 3:
					f.names = []string{g.fname("Empty")}
					f.typ = "struct{}"
				case 4:
					if len(coveredStructs) > 0 && t.kind == "struct" {
						e := coveredStructs[r.Intn(len(coveredStructs))]
						dup := false
						for _, of := range t.fields {
							if of.embedded == e.name {
								dup = true
							}
						}
						if !dup && e.kind == "struct" {
							f.embedded = e.name
							f.embPtr = r.Intn(2) == 0
							f.names = []string{e.name}
							break
						}
					}
					fallthrough
				default:
					f.names = []string{g.fname("F")}
					f.typ = []string{"int", "string", "[]byte", "map[string]int", "*int", "error", "any", "time.Time", "sync.Mutex", "c16opaque", "*c16opaque", "time.Duration", "c16nothing", "P"}[r.Intn(13)]
					if r.Intn(8) == 0 {
						// a field spanning several lines (a trailing comment then sits on its closing line)
						f.typ = []string{"map[string]struct {\n\t\tX int\n\t}", "func(\n\t\ta int,\n\t) error", "[]struct {\n\t\tY string\n\t}"}[r.Intn(3)]
						multiLine = true
					}
					if len(g.ts) > 0 && r.Intn(4) == 0 {
						// a field whose type is (built from) an earlier type of the same package: by value, pointer, slice or
						// map value; generic types instantiated with a basic type or with the enclosing type parameter
						e := g.ts[r.Intn(len(g.ts))]
						tn := e.name
						if e.kind == "generic-struct" {
							arg := []string{"string", "int", "time.Duration"}[r.Intn(3)]
							if t.kind == "generic-struct" && r.Intn(2) == 0 {
								arg = "P"
							}
							tn += "[" + arg + "]"
						}
						form := r.Intn(4)
						f.typ = []string{"", "*", "[]", "map[string]"}[form] + tn
						f.names = []string{g.fname("Ref")}
						f.listed = !(form == 0 && (e.kind == "struct" || e.kind == "generic-struct") && len(e.fields) == 0)
						f.doc = genDoc(r, f.names)
						f.doc.write(&b, "\t")
						fmt.Fprintf(&b, "\t%s %s\n", f.names[0], f.typ)
						hasExported = true
						t.fields = append(t.fields, f)
						prevTrailing = false
						continue
					}
					if f.typ == "c16nothing" {
						// a field whose (named) type is an empty struct is not listed
						f.listed = false
						f.names[0] = "Nothing" + f.names[0]
						f.doc = genDoc(r, f.names)
						f.doc.write(&b, "\t")
						fmt.Fprintf(&b, "\t%s %s\n", f.names[0], f.typ)
						hasExported = true
						t.fields = append(t.fields, f)
						prevTrailing = false
						continue
					}
					if t.kind == "generic-struct" && r.Intn(3) == 0 {
						f.typ = "P"
					}
					f.listed = true
				}
				if f.embedded == "" {
					f.doc = genDoc(r, f.names)
					if len(f.doc.comment) == 0 && prevTrailing {
						// undocumented field right below a trailing comment: the classic mis-attribution
					}
					f.doc.write(&b, "\t")
					tr := ""
					prevTrailing = false
					if r.Intn(3) == 0 || (multiLine && r.Intn(4) != 0) {
						tr = " // trailing " + fragments[r.Intn(len(fragments))]
						prevTrailing = true
					}
					fmt.Fprintf(&b, "\t%s %s%s\n", strings.Join(f.names, ", "), f.typ, tr)
					if f.names[0][0] >= 'A' && f.names[0][0] <= 'Z' {
						hasExported = true
					}
				} else {
					if r.Intn(2) == 0 {
						// the embedding itself is documented
						f.doc = genDoc(r, []string{f.embedded})
						f.doc.write(&b, "\t")
					}
					if f.embPtr {
						fmt.Fprintf(&b, "\t*%s\n", f.embedded)
					} else {
						fmt.Fprintf(&b, "\t%s\n", f.embedded)
					}
					prevTrailing = false
					if f.embedded[0] >= 'A' && f.embedded[0] <= 'Z' {
						hasExported = true
					}
				}
				t.fields = append(t.fields, f)
				if f.embedded != "" && r.Intn(2) == 0 {
					// shadowing: an own field named like an exported field of the struct just embedded - the own
					// field's documentation is the answer for that name
					var cands []string
					for _, ef := range byNameSoFar(g.ts, f.embedded).fields {
						if ef.listed && ef.embedded == "" {
							for _, n := range ef.names {
								taken := false
								for _, of := range t.fields {
									for _, on := range of.names {
										if on == n {
											taken = true
										}
									}
								}
								if !taken && n[0] >= 'A' && n[0] <= 'Z' {
									cands = append(cands, n)
								}
							}
						}
					}
					if len(cands) > 0 {
						sf := field{names: []string{cands[r.Intn(len(cands))]}, typ: "string", listed: true}
						sf.doc = genDoc(r, sf.names)
						sf.doc.write(&b, "\t")
						fmt.Fprintf(&b, "\t%s %s\n", sf.names[0], sf.typ)
						hasExported = true
						t.fields = append(t.fields, sf)
					}
				}
			}
			b.WriteString("}\n\n")
			t.covered = t.exported && t.enabled && hasExported
			if t.covered && t.kind == "struct" {
				coveredStructs = append(coveredStructs, t)
			}
		case "scalar":
			fmt.Fprintf(&b, "type %s int\n\n", t.name)
			t.covered = t.exported && t.enabled
		case "map":
			fmt.Fprintf(&b, "type %s map[string]int\n\n", t.name)
			t.covered = t.exported && t.enabled
		case "slice":
			fmt.Fprintf(&b, "type %s []string\n\n", t.name)
			t.covered = t.exported && t.enabled
		case "func":
			fmt.Fprintf(&b, "type %s func(int) error\n\n", t.name)
			t.covered = t.exported && t.enabled
		case "interface":
			fmt.Fprintf(&b, "type %s interface {\n\t// M does\n\tM()\n}\n\n", t.name)
		}
		g.ts = append(g.ts, t)
	}
	byName := map[string]*typ{}
	for _, t := range g.ts {
		byName[t.name] = t
	}
	// queries
	for _, t := range g.ts {
		if !t.covered {
			continue
		}
		expr := "&" + t.name + "{}"
		if t.kind == "generic-struct" {
			expr = "&" + t.name + "[int]{}"
		}
		if t.kind == "struct" {
			// embedded pointers are non-nil at every nesting level
			var valueLit func(t *typ) string
			valueLit = func(t *typ) string {
				var inits []string
				for _, f := range t.fields {
					if f.embedded == "" {
						continue
					}
					e := byName[f.embedded]
					if f.embPtr {
						inits = append(inits, fmt.Sprintf("%s: &%s", f.embedded, valueLit(e)))
					} else {
						inits = append(inits, fmt.Sprintf("%s: %s", f.embedded, valueLit(e)))
					}
				}
				return t.name + "{" + strings.Join(inits, ", ") + "}"
			}
			expr = "&" + valueLit(t)
		}
		switch t.kind {
		case "scalar", "map", "slice", "func":
			expr = "new(" + t.name + ")"
		}
		queries = append(queries, query{Type: t.name, Expr: expr, Want: nonNil(t.doc.expectedFor(t.name)), OK: true, Kind: "type-doc", Hostile: t.doc.hostile || t.decoyTr != ""})
		if t.kind != "struct" && t.kind != "generic-struct" {
			continue
		}
		own := map[string]bool{}
		for _, f := range t.fields {
			for _, n := range f.names {
				own[n] = true
			}
		}
		// names promoted through MORE than one embedded struct of t (possible since own fields may shadow: T5 embeds T1 and
		// declares its own F4, T21 embeds T1 and T5) are ambiguous selectors in Go; which embedding answers for them is
		// not defined by the statement - they are not asked
		promotedBy := map[string]int{}
		for _, f := range t.fields {
			if f.embedded == "" {
				continue
			}
			if e := byName[f.embedded]; e != nil {
				seen := map[string]bool{}
				var collect func(e *typ, depth int)
				collect = func(e *typ, depth int) {
					if e == nil || depth > 6 {
						return
					}
					for _, ef := range e.fields {
						if ef.embedded != "" {
							collect(byName[ef.embedded], depth+1)
							continue
						}
						for _, n := range ef.names {
							seen[n] = true
						}
					}
				}
				collect(e, 0)
				for n := range seen {
					promotedBy[n]++
				}
			}
		}
		for _, f := range t.fields {
			if f.embedded != "" {
				e := byName[f.embedded]
				if e == nil || !e.covered {
					continue
				}
				// promoted fields answered by delegation (one level; nested embedding answered by the embedded type's own embeds)
				for _, ef := range e.fields {
					if !ef.listed || ef.embedded != "" {
						continue
					}
					for _, n := range ef.names {
						if own[n] || !(n[0] >= 'A' && n[0] <= 'Z') || promotedBy[n] > 1 {
							continue
						}
						queries = append(queries, query{Type: t.name, Expr: expr, Names: []string{n}, Want: nonNil(ef.doc.expectedFor(n)), OK: true, Kind: "delegated-field", Hostile: true, Prefixed: len(f.doc.comment) > 0})
						// the documentation of a field belongs to the TYPE: the zero value (embedded pointer nil) answers
						// as well (seeded change C16-n: a nil guard around the delegation). Asked only where the unchanged
						// shape cannot dereference the nil pointer on the way: t's only embedding, itself without embeddings
						if f.embPtr && t.kind == "struct" && embCount(t) == 1 && embCount(e) == 0 {
							queries = append(queries, query{Type: t.name, Expr: "&" + t.name + "{}", Names: []string{n}, Want: nonNil(ef.doc.expectedFor(n)), OK: true, Kind: "delegated-field-nil-embedded-pointer", Hostile: true, Prefixed: len(f.doc.comment) > 0})
						}
					}
				}
				continue
			}
			for _, n := range f.names {
				exported := n[0] >= 'A' && n[0] <= 'Z'
				if f.listed && exported {
					queries = append(queries, query{Type: t.name, Expr: expr, Names: []string{n}, Want: nonNil(f.doc.expectedFor(n)), OK: true, Kind: "field-doc", Hostile: f.doc.hostile})
				} else {
					queries = append(queries, query{Type: t.name, Expr: expr, Names: []string{n}, Want: nil, OK: false, Kind: "unlisted-field", Hostile: true})
				}
			}
		}
		queries = append(queries, query{Type: t.name, Expr: expr, Names: []string{"NoSuchFieldAnywhere"}, Want: nil, OK: false, Kind: "unknown-name", Hostile: true})
	}
	return b.String(), queries
}

func byNameSoFar(ts []*typ, name string) *typ {
	for _, t := range ts {
		if t.name == name {
			return t
		}
	}
	return &typ{}
}

func nonNil(s []string) []string {
	if s == nil {
		return []string{}
	}
	return s
}

func testFile(pkg string, qs []query) string {
	var b strings.Builder
	fmt.Fprintf(&b, "package %s\n\nimport (\n\t\"fmt\"\n\t\"testing\"\n)\n\n", pkg)
	b.WriteString("type c16doc interface {\n\tRuntimeDoc(names ...string) ([]string, bool)\n}\n\n")
	b.WriteString("func c16eq(a, b []string) bool {\n\tif len(a) != len(b) {\n\t\treturn false\n\t}\n\tfor i := range a {\n\t\tif a[i] != b[i] {\n\t\t\treturn false\n\t\t}\n\t}\n\treturn true\n}\n\n")
	b.WriteString("func c16eqPrefixed(a, b []string) bool {\n\tif len(a) != len(b) {\n\t\treturn false\n\t}\n\tfor i := range a {\n\t\tif i == 0 && len(a[0]) >= len(b[0]) && a[0][len(a[0])-len(b[0]):] == b[0] {\n\t\t\tcontinue\n\t\t}\n\t\tif a[i] != b[i] {\n\t\t\treturn false\n\t\t}\n\t}\n\treturn true\n}\n\n")
	b.WriteString("func TestC16RuntimeDoc(t *testing.T) {\n")
	for i, q := range qs {
		fmt.Fprintf(&b, "\t{\n\t\tvar v any = %s\n\t\td, isDoc := v.(c16doc)\n\t\tif !isDoc {\n\t\t\tfmt.Printf(\"C16MISMATCH %d no RuntimeDoc method\\n\")\n\t\t} else {\n", q.Expr, i)
		fmt.Fprintf(&b, "\t\t\tgot, ok := d.RuntimeDoc(%s)\n", strings.Join(quoteAll(q.Names), ", "))
		fmt.Fprintf(&b, "\t\t\twant := %s\n", lit(q.Want))
		eq := "c16eq"
		if q.Prefixed {
			eq = "c16eqPrefixed"
		}
		fmt.Fprintf(&b, "\t\t\tif ok != %v || !"+eq+"(got, want) {\n\t\t\t\tfmt.Printf(\"C16MISMATCH %d got (%%q, %%v) want (%%q, %v)\\n\", got, ok, want)\n\t\t\t}\n\t\t}\n\t}\n", q.OK, i, q.OK)
	}
	fmt.Fprintf(&b, "\tfmt.Printf(\"C16DONE %s %d\\n\")\n}\n", pkg, len(qs))
	return b.String()
}

func quoteAll(ss []string) []string {
	var o []string
	for _, s := range ss {
		o = append(o, strconv.Quote(s))
	}
	return o
}

func embCount(t *typ) int {
	n := 0
	for _, f := range t.fields {
		if f.embedded != "" {
			n++
		}
	}
	return n
}

var mismatchRe = regexp.MustCompile(`C16MISMATCH (\d+) (.*)`)

func (p *prop) runBatch(c core.Case, w *core.Worker, res *core.Result, r *rand.Rand, n int) {
	m, err := fixture.New(w.Scratch, fmt.Sprintf("c16-%d", c.ID), mod, "1.24")
	if err != nil {
		res.Inconclusive = append(res.Inconclusive, err.Error())
		return
	}
	defer m.Remove()
	type pk struct {
		name string
		src  string
		qs   []query
	}
	var pks []pk
	var entries []string
	for i := 0; i < n; i++ {
		g := &pkgGen{r: r, name: fmt.Sprintf("d%d", i)}
		src, qs := g.generate(r.Intn(2) == 0)
		pks = append(pks, pk{g.name, src, qs})
		m.MustWrite(filepath.Join(g.name, "types.go"), src)
		entries = append(entries, "./"+g.name)
	}
	run := specgen.RunInProcess(m.Root, specgen.Args{Entrypoint: entries, OutputFileBaseName: "zz_generated"}, []specgen.GenSpec{{Name: "runtimedoc", Real: true}})
	res.Inc("gengo_runs")
	if run.Failed {
		res.Fail("execute", "execute-error", "Execute(runtimedoc) failed: "+clip(run.Err+run.Panic, 1200), nil)
		return
	}
	// generate again over the result (the package now contains its own generated methods): the output must still be
	// there and unchanged; the compiled check below then runs against this regenerated output
	first := map[string]string{}
	for _, pkk := range pks {
		if g1, ok := m.Read(filepath.Join(pkk.name, "zz_generated.runtimedoc.go")); ok {
			first[pkk.name] = g1
		}
	}
	run2 := specgen.RunInProcess(m.Root, specgen.Args{Entrypoint: entries, OutputFileBaseName: "zz_generated"}, []specgen.GenSpec{{Name: "runtimedoc", Real: true}})
	res.Inc("gengo_runs")
	if run2.Failed {
		res.Fail("execute", "execute-error second run", "Execute(runtimedoc) failed when run again over its own output: "+clip(run2.Err+run2.Panic, 1200), nil)
		return
	}
	for _, pkk := range pks {
		g2, ok2 := m.Read(filepath.Join(pkk.name, "zz_generated.runtimedoc.go"))
		g1, ok1 := first[pkk.name]
		res.Inc("regenerations_compared")
		if ok1 != ok2 || g1 != g2 {
			res.Fail("compiles-and-runs", "regenerated output differs", fmt.Sprintf("package %s: generating again over the generated package changed zz_generated.runtimedoc.go (existed after run 1: %v, after run 2: %v)\n--- run 1:\n%s\n--- run 2:\n%s", pkk.name, ok1, ok2, clip(g1, 800), clip(g2, 800)), nil)
		}
	}
	for _, pkk := range pks {
		m.MustWrite(filepath.Join(pkk.name, "c16_test.go"), testFile(pkk.name, pkk.qs))
	}
	for _, pkk := range pks {
		cmd := exec.Command("go", "test", "-v", "-count=1", "-vet=off", "-run", "TestC16RuntimeDoc", "./"+pkk.name)
		cmd.Dir = m.Root
		cmd.Env = append(os.Environ(), "GOFLAGS=-mod=mod")
		var ob bytes.Buffer
		cmd.Stdout, cmd.Stderr = &ob, &ob
		err := cmd.Run()
		out := ob.String()
		res.Inc("compiled_test_programs")
		gen, _ := m.Read(filepath.Join(pkk.name, "zz_generated.runtimedoc.go"))
		if !strings.Contains(out, "C16DONE "+pkk.name) {
			res.Fail("compiles-and-runs", "go test", fmt.Sprintf("package %s: the generated code does not compile / the test did not finish (%v):\n%s\n--- source:\n%s\n--- generated:\n%s", pkk.name, err, clip(out, 1500), clip(pkk.src, 1500), clip(gen, 1500)), nil)
			continue
		}
		bad := map[int]string{}
		for _, mm := range mismatchRe.FindAllStringSubmatch(out, -1) {
			i, _ := strconv.Atoi(mm[1])
			bad[i] = mm[2]
		}
		for i, q := range pkk.qs {
			res.Evals++
			if q.Hostile {
				res.NonTrivial(fmt.Sprintf("%s|%v|%v", q.Kind, q.Want, q.OK))
			}
			res.Inc("query_" + q.Kind)
			if msg, isBad := bad[i]; isBad {
				if dd := os.Getenv("VERIF_DUMP"); dd != "" {
					_ = os.WriteFile(filepath.Join(dd, pkk.name+".src.go"), []byte(pkk.src), 0o644)
					_ = os.WriteFile(filepath.Join(dd, pkk.name+".gen.go"), []byte(gen), 0o644)
				}
				res.Fail(q.Kind, q.Kind, fmt.Sprintf("package %s: (%s).RuntimeDoc(%v): %s\n--- source:\n%s", pkk.name, q.Expr, q.Names, msg, clip(typeSource(pkk.src, q.Type), 1200)), nil)
			}
		}
	}
	if len(pks) > 0 && len(pks[0].qs) > 0 {
		q := pks[0].qs[len(pks[0].qs)/2]
		res.Sample(map[string]any{"query": fmt.Sprintf("(%s).RuntimeDoc(%v)", q.Expr, q.Names), "want": q.Want, "ok": q.OK, "kind": q.Kind}, 1)
	}
}

func typeSource(src, name string) string {
	i := strings.Index(src, "type "+name)
	if i < 0 {
		return src
	}
	lo := strings.LastIndex(src[:i], "\n\n")
	if lo < 0 {
		lo = 0
	}
	hi := strings.Index(src[i:], "\n\n")
	if hi < 0 {
		return src[lo:]
	}
	return src[lo : i+hi]
}

func clip(s string, n int) string {
	if len(s) <= n {
		return s
	}
	return s[:n] + "…"
}

func (p *prop) Run(c core.Case, w *core.Worker) core.Result {
	res := core.Result{CaseID: c.ID}
	var pa params
	c.Decode(&pa)
	r := rand.New(rand.NewSource(c.Seed))
	p.runBatch(c, w, &res, r, pa.N)
	return res
}
