// Package c15: type references survive parsing, printing and import rewriting.
package c15

import (
	"bytes"
	"fmt"
	"go/token"
	"math/rand"
	"strings"

	"github.com/octohelm/gengo/pkg/gengo"
	"github.com/octohelm/gengo/pkg/gengo/snippet"
	"github.com/octohelm/gengo/pkg/namer"
	gengotypes "github.com/octohelm/gengo/pkg/types"

	"verif/internal/core"
)

func init() { core.Register(&prop{}) }

type prop struct{}

func (*prop) ID() string    { return "C15" }
func (*prop) Level() string { return "exploration" }
func (*prop) Rule() string {
	return "reference strings are generated from the grammar ref ::= [path '.'] ident ['[' ref {',' ref} ']'] as trees: exhaustively for (depth<=1, width<=3, 5 paths x 3 idents), (depth<=1, width<=3, 3 paths x 3 idents two of which are non-ASCII), (depth<=2, width<=3, 2 paths x 1 ident) and, in the thorough tier, (depth<=3, width<=2, 2 paths x 1 ident), " +
		"plus seeded random trees up to depth 5 / width 4 over paths {none, a.io/x, github.com/a/b/v2, gopkg.in/yaml.v3, github.com/json-iterator/go, the target package}. " +
		"Oracles per string s: ParseTypeRef(s) succeeds, its tree equals the generator's tree and String()==s; Walk visits every node once in pre-order; for refs with a top-level path ParseRef(s) and PkgImportPathAndExpose(s) split path/name at the same place (= the generator's); " +
		"snippet.ID(s) rendered through a SnippetWriter equals the tree printed with every non-target path replaced by Imports()[path] and the target path dropped, and Imports() keys are exactly the non-target paths of the tree, each mapped to a valid identifier. " +
		"Non-trivial = at least one bracketed argument list; distinct by construction (exhaustive) or by 64-bit hash (random)."
}
func (*prop) Assumptions() []string {
	return []string{"identifiers and path segments are drawn from small fixed sets; /vendor/ paths are outside the quantifier"}
}
func (*prop) MinDistinct(tier string) int64 {
	if tier == "thorough" {
		return 200000
	}
	return 20000
}

const target = "example.com/target"

type Ref struct {
	Path string `json:"path,omitempty"`
	Name string `json:"name"`
	Args []*Ref `json:"args,omitempty"`
}

func (r *Ref) write(b *strings.Builder, pathOf func(string) string) {
	p := pathOf(r.Path)
	if p != "" {
		b.WriteString(p)
		b.WriteByte('.')
	}
	b.WriteString(r.Name)
	if len(r.Args) > 0 {
		b.WriteByte('[')
		for i, a := range r.Args {
			if i > 0 {
				b.WriteByte(',')
			}
			a.write(b, pathOf)
		}
		b.WriteByte(']')
	}
}

func (r *Ref) String() string {
	var b strings.Builder
	r.write(&b, func(p string) string { return p })
	return b.String()
}

func (r *Ref) depth() int {
	d := 0
	for _, a := range r.Args {
		if x := a.depth() + 1; x > d {
			d = x
		}
	}
	return d
}

func (r *Ref) paths(set map[string]bool) {
	if r.Path != "" && r.Path != target {
		set[r.Path] = true
	}
	for _, a := range r.Args {
		a.paths(set)
	}
}

func (r *Ref) preorder(out *[]string) {
	*out = append(*out, r.Path+"|"+r.Name)
	for _, a := range r.Args {
		a.preorder(out)
	}
}

// enumerate all trees of depth<=d, width<=w
func enumerate(paths, idents []string, d, w int) []*Ref {
	var leaves []*Ref
	for _, p := range paths {
		for _, id := range idents {
			leaves = append(leaves, &Ref{Path: p, Name: id})
		}
	}
	if d == 0 {
		return leaves
	}
	sub := enumerate(paths, idents, d-1, w)
	out := append([]*Ref{}, leaves...)
	// argument lists of length 1..w over sub
	var lists [][]*Ref
	var rec func(cur []*Ref)
	rec = func(cur []*Ref) {
		if len(cur) > 0 {
			lists = append(lists, append([]*Ref{}, cur...))
		}
		if len(cur) == w {
			return
		}
		for _, s := range sub {
			rec(append(cur, s))
		}
	}
	rec(nil)
	for _, l := range leaves {
		for _, args := range lists {
			out = append(out, &Ref{Path: l.Path, Name: l.Name, Args: args})
		}
	}
	return out
}

type space struct {
	Name   string   `json:"name"`
	Paths  []string `json:"paths"`
	Idents []string `json:"idents"`
	D, W   int
	Shard  int `json:"shard"`
	Of     int `json:"of"`
}

var allPaths = []string{"", "a.io/x", "github.com/a/b/v2", "gopkg.in/yaml.v3", target}

func (*prop) Cases(seed int64, tier string) []core.Case {
	var cs []core.Case
	add := func(sp space, n int) {
		for i := 0; i < n; i++ {
			sp.Shard, sp.Of = i, n
			cs = append(cs, core.MkCase("exhaustive", sp))
		}
	}
	add(space{Name: "d1w3", Paths: allPaths, Idents: []string{"T", "List", "x_1"}, D: 1, W: 3}, 8)
	add(space{Name: "d2w3", Paths: []string{"", "a.io/x"}, Idents: []string{"T"}, D: 2, W: 3}, 8)
	// identifiers are Unicode letters and digits: multi-byte names at every position of an argument list
	add(space{Name: "d1w3-unicode", Paths: []string{"", "a.io/x", target}, Idents: []string{"Größe", "名前", "T"}, D: 1, W: 3}, 4)
	// import paths without a slash (time, context, sync): a reference none of whose paths has a slash is rewritten and
	// registered like any other (seeded change C15-m: "no slash, nothing to rewrite" fast path)
	add(space{Name: "d1w3-slashless", Paths: []string{"", "time", "context", target}, Idents: []string{"T", "List"}, D: 1, W: 3}, 4)
	add(space{Name: "d2w2-slashless", Paths: []string{"time", "sync"}, Idents: []string{"T"}, D: 2, W: 2}, 2)
	nrand, randN := 16, 4000
	if tier == "thorough" {
		add(space{Name: "d3w2", Paths: []string{"", "a.io/x"}, Idents: []string{"T"}, D: 3, W: 2}, 32)
		add(space{Name: "d2w2-wide", Paths: []string{"", "a.io/x", "gopkg.in/yaml.v3", target}, Idents: []string{"T"}, D: 2, W: 2}, 16)
		nrand, randN = 32, 8000
	}
	for i := 0; i < nrand; i++ {
		cs = append(cs, core.MkCase("random", map[string]int{"n": randN}))
	}
	cs = append(cs, core.MkCase("regressions", nil))
	return cs
}

func treeEqual(t *gengotypes.TypeRef, r *Ref) bool {
	if t == nil || t.PkgPath != r.Path || t.Name != r.Name || len(t.TypeList) != len(r.Args) {
		return false
	}
	for i := range r.Args {
		if !treeEqual(t.TypeList[i], r.Args[i]) {
			return false
		}
	}
	return true
}

// check returns the first oracle disagreement for the tree r ("" = held), and the oracle's name.
func check(r *Ref, res *core.Result) (oracle, msg string) {
	s := r.String()
	var tr *gengotypes.TypeRef
	var err error
	if pk, pv, _ := core.Guard(func() { tr, err = gengotypes.ParseTypeRef(s) }); pk {
		return "parse", fmt.Sprintf("ParseTypeRef(%q) panicked: %v", s, pv)
	}
	if err != nil {
		return "parse", fmt.Sprintf("ParseTypeRef(%q) failed: %v", s, err)
	}
	if !treeEqual(tr, r) {
		return "parse-tree", fmt.Sprintf("ParseTypeRef(%q) built a different tree: prints as %q", s, tr.String())
	}
	if got := tr.String(); got != s {
		return "print", fmt.Sprintf("ParseTypeRef(%q).String() = %q", s, got)
	}
	var want, got []string
	r.preorder(&want)
	tr.Walk(func(t *gengotypes.TypeRef) bool { got = append(got, t.PkgPath+"|"+t.Name); return true })
	if strings.Join(want, ";") != strings.Join(got, ";") {
		return "walk", fmt.Sprintf("Walk over %q visited %v, want pre-order %v", s, got, want)
	}
	if res != nil {
		res.Inc("parse_print_walk_checks")
	}
	if r.Path == "" {
		// no top-level path: PkgImportPathAndExpose must report no path and the bare identifier
		p, e := gengo.PkgImportPathAndExpose(s)
		if p != "" || e != r.Name {
			return "split", fmt.Sprintf("PkgImportPathAndExpose(%q) = (%q,%q), want (\"\",%q)", s, p, e, r.Name)
		}
		return "", ""
	}
	// where does the path end?
	nameWithArgs := s[len(r.Path)+1:]
	pr, err := gengotypes.ParseRef(s)
	if err != nil {
		return "split", fmt.Sprintf("ParseRef(%q) failed: %v", s, err)
	}
	if pr.Pkg().Path() != r.Path || pr.Name() != nameWithArgs {
		return "split", fmt.Sprintf("ParseRef(%q) = (%q, %q), want (%q, %q)", s, pr.Pkg().Path(), pr.Name(), r.Path, nameWithArgs)
	}
	if pr.String() != s {
		return "split", fmt.Sprintf("ParseRef(%q).String() = %q", s, pr.String())
	}
	p, e := gengo.PkgImportPathAndExpose(s)
	if p != r.Path || e != r.Name {
		return "split", fmt.Sprintf("PkgImportPathAndExpose(%q) = (%q,%q), want (%q,%q)", s, p, e, r.Path, r.Name)
	}
	if res != nil {
		res.Inc("split_agreement_checks")
	}
	// rendering through the naming system
	var buf bytes.Buffer
	tracker := namer.NewDefaultImportTracker()
	w := gengo.NewSnippetWriter(&buf, namer.NameSystems{"raw": namer.NewRawNamer(target, tracker)})
	if pk, pv, _ := core.Guard(func() { w.Render(snippet.ID(s)) }); pk {
		return "render", fmt.Sprintf("rendering ID(%q) panicked: %v", s, pv)
	}
	imports := tracker.Imports()
	wantPaths := map[string]bool{}
	r.paths(wantPaths)
	for p := range wantPaths {
		n, ok := imports[p]
		if !ok {
			return "render-imports", fmt.Sprintf("ID(%q): package %q is referenced but not registered (imports %v)", s, p, imports)
		}
		if !token.IsIdentifier(n) {
			return "render-imports", fmt.Sprintf("ID(%q): package %q registered under %q, not an identifier", s, p, n)
		}
	}
	for p := range imports {
		if !wantPaths[p] {
			return "render-imports", fmt.Sprintf("ID(%q): package %q registered but not referenced", s, p)
		}
	}
	var b strings.Builder
	r.write(&b, func(p string) string {
		if p == target {
			return ""
		}
		if p == "" {
			return ""
		}
		return imports[p]
	})
	if buf.String() != b.String() {
		return "render", fmt.Sprintf("ID(%q) rendered %q, want %q (imports %v)", s, buf.String(), b.String(), imports)
	}
	if res != nil {
		res.Inc("render_rewrite_checks")
	}
	return "", ""
}

func record(res *core.Result, r *Ref, byConstruction bool) {
	res.Evals++
	nontriv := len(r.Args) > 0
	if nontriv {
		if byConstruction {
			res.DistinctN++
		} else {
			res.NonTrivial(r.String())
		}
	}
	res.Inc(fmt.Sprintf("refs_depth_%d", r.depth()))
	if o, m := check(r, res); m != "" {
		// shrink: try replacing the tree by its sub-trees / dropping arguments
		sh := shrink(r, o)
		_, m2 := check(sh, nil)
		res.Fail(o, sh.String(), fmt.Sprintf("%s; shrunk to %q: %s", m, sh.String(), m2), r.String())
	}
}

func clone(r *Ref) *Ref {
	c := &Ref{Path: r.Path, Name: r.Name}
	for _, a := range r.Args {
		c.Args = append(c.Args, clone(a))
	}
	return c
}

func shrink(r *Ref, oracle string) *Ref {
	fails := func(x *Ref) bool { o, m := check(x, nil); return m != "" && o == oracle }
	cur := r
	for changed := true; changed; {
		changed = false
		// descend into a failing child
		for _, a := range cur.Args {
			if fails(a) {
				cur, changed = a, true
				break
			}
		}
		if changed {
			continue
		}
		// drop an argument
		for i := range cur.Args {
			if len(cur.Args) == 1 {
				break
			}
			c := &Ref{Path: cur.Path, Name: cur.Name, Args: append(append([]*Ref{}, cur.Args[:i]...), cur.Args[i+1:]...)}
			if fails(c) {
				cur, changed = c, true
				break
			}
		}
		if changed {
			continue
		}
		// simplify paths and names of any node
		{
			var nodes []*Ref
			var collect func(x *Ref)
			collect = func(x *Ref) {
				nodes = append(nodes, x)
				for _, a := range x.Args {
					collect(a)
				}
			}
			cp := clone(cur)
			collect(cp)
			for i, n := range nodes {
				tryPaths := []string{"a.io/x"}
				if i > 0 {
					tryPaths = []string{"", "a.io/x"}
				}
				for _, np := range tryPaths {
					if n.Path != np && len(np) < len(n.Path) || (np == "" && n.Path != "") {
						old := n.Path
						n.Path = np
						if fails(cp) {
							cur, changed = clone(cp), true
						} else {
							n.Path = old
						}
					}
				}
				if n.Name != "T" {
					old := n.Name
					n.Name = "T"
					if fails(cp) {
						cur, changed = clone(cp), true
					} else {
						n.Name = old
					}
				}
			}
			if changed {
				continue
			}
		}
		// shrink inside an argument
		for i, a := range cur.Args {
			for _, cand := range append(append([]*Ref{}, a.Args...), &Ref{Path: a.Path, Name: a.Name}) {
				if cand.String() == a.String() {
					continue
				}
				args := append([]*Ref{}, cur.Args...)
				args[i] = cand
				c := &Ref{Path: cur.Path, Name: cur.Name, Args: args}
				if fails(c) {
					cur, changed = c, true
					break
				}
			}
			if changed {
				break
			}
		}
	}
	return cur
}

var randPaths = []string{"", "", "a.io/x", "github.com/a/b/v2", "gopkg.in/yaml.v3", "github.com/json-iterator/go", target, "example.com/other/target", "k8s.io/api/core/v1", "time", "context", "sync"}
var randIdents = []string{"T", "List", "Map", "x_1", "string", "int", "Pair", "Größe", "名前", "Δx", "Ünï_1"}

func randTree(r *rand.Rand, depth, width int, top bool) *Ref {
	t := &Ref{Name: randIdents[r.Intn(len(randIdents))]}
	t.Path = randPaths[r.Intn(len(randPaths))]
	if top && t.Path == "" {
		t.Path = randPaths[2+r.Intn(len(randPaths)-2)]
	}
	if (t.Name == "string" || t.Name == "int") && !top {
		t.Path = ""
		return t
	}
	if depth > 0 && r.Intn(3) > 0 {
		n := 1 + r.Intn(width)
		for i := 0; i < n; i++ {
			t.Args = append(t.Args, randTree(r, depth-1, width, false))
		}
	}
	return t
}

func (p *prop) Run(c core.Case, w *core.Worker) core.Result {
	res := core.Result{CaseID: c.ID}
	switch c.Kind {
	case "exhaustive":
		var sp space
		c.Decode(&sp)
		all := enumerate(sp.Paths, sp.Idents, sp.D, sp.W)
		for i, r := range all {
			if i%sp.Of != sp.Shard {
				continue
			}
			record(&res, r, true)
			if i == sp.Shard+sp.Of*40 {
				res.Sample(r.String(), 1)
			}
		}
		res.Count("space_"+sp.Name+"_size", 0)
		if sp.Shard == 0 {
			res.Count("space_"+sp.Name+"_size", int64(len(all)))
		}
	case "random":
		var rp map[string]int
		c.Decode(&rp)
		r := rand.New(rand.NewSource(c.Seed))
		for i := 0; i < rp["n"]; i++ {
			t := randTree(r, 1+r.Intn(5), 1+r.Intn(4), r.Intn(5) > 0)
			record(&res, t, false)
			if i == 0 {
				res.Sample(t.String(), 1)
			}
		}
	case "regressions":
		a := &Ref{Name: "a"}
		b := &Ref{Name: "b"}
		cc := &Ref{Name: "c"}
		pp := &Ref{Name: "P", Args: []*Ref{a, b}}
		l := &Ref{Name: "L", Args: []*Ref{pp, cc}}
		for _, t := range []*Ref{
			{Name: "M", Args: []*Ref{l}},
			{Path: "a.io/x", Name: "M", Args: []*Ref{l}},
			{Path: "a.io/x", Name: "M", Args: []*Ref{{Path: "a.io/x", Name: "L", Args: []*Ref{{Path: target, Name: "P", Args: []*Ref{a, b}}, {Path: "gopkg.in/yaml.v3", Name: "c"}}}}},
		} {
			record(&res, t, false)
		}
	}
	return res
}
