// Package c14: ResultsOf terminates and reports only possible results, one set per result.
package c14

import (
	"fmt"
	"go/constant"
	"go/token"
	"go/types"
	"math/rand"
	"sort"
	"strconv"
	"strings"

	gengotypes "github.com/octohelm/gengo/pkg/types"

	"verif/internal/core"
	"verif/internal/fixture"
)

func init() { core.Register(&prop{}) }

type prop struct{}

func (*prop) ID() string    { return "C14" }
func (*prop) Level() string { return "exploration" }
func (*prop) Rule() string {
	return "(a) ResultsOf is called (inside a supervised worker process with a 64 MiB goroutine stack cap and a begin marker per function, so that a fatal stack overflow is attributed to one function and the batch resumes after it) for every function and method of the dependency closure of /repo itself (about 11 000, std included); " +
		"(b) seeded generated packages of functions: direct and mutual recursion through (T, error) and 3-result tuples at every result index, closures passed as arguments with fewer / equal / more results than the callee and permuted result types, named results with bare return, tuple forwarding, calls into a second package and through interfaces, identifier chasing, branches, generics, curried calls, functions without return statement; " +
		"(c) cross-package queries q.ResultsOf(p.F); (d) literal-only functions: random literals / true / false / nil / operators on them at every position, several return statements in nested control flow, returns inside nested closures (must be ignored). " +
		"Oracles: no panic / fatal error; n == declared result count; n > 0 => exactly n lists, each non-empty; every alternative is a constant or a type assignable to the declared result type (untyped nil only into nillable types; skipped when type parameters are involved); two calls give equal String(); for (d) the alternatives at each position are exactly the expected constants in source order. " +
		"Non-trivial = function with at least one result whose body contains a call, a closure, a named result or >= 2 return statements (corpus: any function with results); distinct by hash of (package, function) for the corpus / of the generated source for generated functions."
}
func (*prop) Assumptions() []string {
	return []string{
		"termination is restated as: returns without fatal error inside a 64 MiB goroutine stack; a separate generous wall-clock watchdog only yields inconclusive",
		"assignability is judged by go/types (types.AssignableTo) in the universe of the same load",
	}
}
func (*prop) MinDistinct(tier string) int64 {
	if tier == "thorough" {
		return 20000
	}
	return 3500
}
func (*prop) Workers(tier string) int { return 8 }

type params struct {
	Shard, Of int
	N         int
}

func (*prop) Cases(seed int64, tier string) []core.Case {
	shards, genCases, per := 8, 16, 4
	if tier == "thorough" {
		shards, genCases, per = 8, 96, 12
	}
	var cs []core.Case
	for i := 0; i < shards; i++ {
		cs = append(cs, core.MkCase("corpus", params{Shard: i, Of: shards}))
	}
	for i := 0; i < genCases; i++ {
		cs = append(cs, core.MkCase("generated", params{N: per}))
	}
	return cs
}

func mentionsTypeParam(t types.Type, seen map[types.Type]bool) bool {
	if t == nil || seen[t] {
		return false
	}
	seen[t] = true
	switch x := t.(type) {
	case *types.TypeParam:
		return true
	case *types.Alias:
		return mentionsTypeParam(types.Unalias(x), seen)
	case *types.Named:
		if x.TypeParams().Len() > 0 && x.TypeArgs().Len() == 0 {
			return true
		}
		for i := 0; i < x.TypeArgs().Len(); i++ {
			if mentionsTypeParam(x.TypeArgs().At(i), seen) {
				return true
			}
		}
		return false
	case *types.Pointer:
		return mentionsTypeParam(x.Elem(), seen)
	case *types.Slice:
		return mentionsTypeParam(x.Elem(), seen)
	case *types.Array:
		return mentionsTypeParam(x.Elem(), seen)
	case *types.Chan:
		return mentionsTypeParam(x.Elem(), seen)
	case *types.Map:
		return mentionsTypeParam(x.Key(), seen) || mentionsTypeParam(x.Elem(), seen)
	case *types.Signature:
		for i := 0; i < x.Params().Len(); i++ {
			if mentionsTypeParam(x.Params().At(i).Type(), seen) {
				return true
			}
		}
		for i := 0; i < x.Results().Len(); i++ {
			if mentionsTypeParam(x.Results().At(i).Type(), seen) {
				return true
			}
		}
	case *types.Struct:
		for i := 0; i < x.NumFields(); i++ {
			if mentionsTypeParam(x.Field(i).Type(), seen) {
				return true
			}
		}
	case *types.Tuple:
		for i := 0; i < x.Len(); i++ {
			if mentionsTypeParam(x.At(i).Type(), seen) {
				return true
			}
		}
	}
	return false
}

func nillable(t types.Type) bool {
	switch u := t.Underlying().(type) {
	case *types.Pointer, *types.Slice, *types.Map, *types.Chan, *types.Signature, *types.Interface:
		return true
	case *types.Basic:
		return u.Kind() == types.UnsafePointer || u.Kind() == types.UntypedNil
	}
	return false
}

// logical step budget of one ResultsOf call, counted through the verif hook in the resolver
const stepBudget = 5_000

var steps int
var budgetArmed bool // only while checkFunc calls ResultsOf: every check is linked into the one harness binary, and other checks' generators call ResultsOf too
var errStepBudget = fmt.Errorf("step budget exceeded")

func init() {
	gengotypes.VerifStep = func(string) {
		if !budgetArmed {
			return
		}
		steps++
		if steps > stepBudget {
			panic(errStepBudget)
		}
	}
}

func hasTP(t types.Type) bool { return mentionsTypeParam(t, map[types.Type]bool{}) }

// checkFunc applies the soundness oracles to one function; returns the rendered result string.
func checkFunc(res *core.Result, p gengotypes.Package, fn *types.Func, ctx string) (gengotypes.FuncResults, bool) {
	sig := fn.Type().(*types.Signature)
	n := sig.Results().Len()
	var results, results2 gengotypes.FuncResults
	var gotN int
	name := fn.FullName()
	fail := func(oracle, format string, a ...any) {
		res.Fail(oracle, ctx+" "+oracle+" "+shortKey(name, ctx), fmt.Sprintf("%s: ", name)+fmt.Sprintf(format, a...), map[string]any{"func": name})
	}
	steps = 0
	budgetArmed = true
	defer func() { budgetArmed = false }()
	if pk, pv, stack := core.Guard(func() { results, gotN = p.ResultsOf(fn) }); pk {
		if pv == errStepBudget {
			fail("no-termination-within-step-budget", "ResultsOf did not return within %d resolver steps (logical step budget; the largest count observed on the unchanged tree is below %d)", stepBudget, stepBudget/50)
			return nil, false
		}
		fail("panic", "ResultsOf panicked: %v\n%s", pv, clip(stack, 1500))
		return nil, false
	}
	res.Inc("resultsof_calls")
	// snapshot now: a later call may not change what this call returned either (aliasing into shared state)
	firstAnswer := safeString(results)
	if int64(steps) > res.Obs["max_resolver_steps_per_call"] {
		res.Count("max_resolver_steps_per_call", int64(steps)-res.Obs["max_resolver_steps_per_call"])
	}
	if gotN != n {
		fail("count", "ResultsOf reports n=%d, the function declares %d results", gotN, n)
		return nil, false
	}
	if n == 0 {
		if len(results) != 0 {
			fail("count", "function has no results but %d lists were returned", len(results))
		}
		return results, true
	}
	if len(results) != n {
		fail("lists", "declares %d results, ResultsOf returned %d lists (%s)", n, len(results), safeString(results))
		return nil, false
	}
	ok := true
	for i, alts := range results {
		declared := sig.Results().At(i).Type()
		if len(alts) == 0 {
			fail("empty-list", "result %d (%s) has no alternative", i, declared)
			ok = false
			continue
		}
		for _, alt := range alts {
			res.Inc("alternatives_checked")
			if alt.Type == nil && alt.Value == nil {
				fail("invalid-alternative", "result %d (%s) has an alternative with neither type nor value", i, declared)
				ok = false
				continue
			}
			if alt.Type == nil {
				continue // a bare constant; kind compatibility cannot be judged without a type
			}
			if hasTP(declared) || hasTP(alt.Type) {
				res.Inc("alternatives_skipped_type_params")
				continue
			}
			if b, isB := alt.Type.(*types.Basic); isB && b.Kind() == types.UntypedNil {
				if !nillable(declared) {
					fail("unsound", "result %d is declared %s but untyped nil is reported as an alternative", i, declared)
					ok = false
				}
				continue
			}
			if b, isB := alt.Type.(*types.Basic); isB && b.Kind() == types.Invalid {
				fail("invalid-alternative", "result %d (%s) has an alternative of invalid type", i, declared)
				ok = false
				continue
			}
			assignable := false
			if pk, _, _ := core.Guard(func() { assignable = types.AssignableTo(alt.Type, declared) }); pk {
				res.Inc("assignability_undecidable")
				continue
			}
			if !assignable {
				what := alt.Type.String()
				if alt.Value != nil {
					what = "constant " + alt.Value.String() + " (" + what + ")"
				}
				fail("unsound", "result %d is declared %s but %s is reported as an alternative, which is not assignable to it (all: %s)", i, declared, what, safeString(results))
				ok = false
			}
		}
	}
	steps = 0
	if pk, pv, _ := core.Guard(func() { results2, _ = p.ResultsOf(fn) }); pk {
		fail("panic", "second ResultsOf call panicked: %v", pv)
		return results, false
	}
	if a, b := firstAnswer, safeString(results2); a != b {
		fail("unstable", "two calls disagree: %s vs %s", a, b)
		ok = false
	}
	if a, b := firstAnswer, safeString(results); a != b {
		fail("unstable", "the value returned by the first call changed during the second call: %s became %s", a, b)
		ok = false
	}
	return results, ok
}

func shortKey(name, ctx string) string {
	if ctx == "corpus" {
		return name
	}
	// generated functions: family prefix only (names carry random suffixes)
	if i := strings.LastIndex(name, "."); i >= 0 {
		name = name[i+1:]
	}
	if i := strings.Index(name, "_"); i >= 0 {
		name = name[:i]
	}
	return name
}

func safeString(r gengotypes.FuncResults) (s string) {
	defer func() {
		if e := recover(); e != nil {
			s = fmt.Sprintf("<String() panicked: %v>", e)
		}
	}()
	return r.String()
}

func clip(s string, n int) string {
	if len(s) <= n {
		return s
	}
	return s[:n] + "…"
}

func allFuncs(p gengotypes.Package) []*types.Func {
	var out []*types.Func
	scope := p.Pkg().Scope()
	for _, n := range scope.Names() {
		switch o := scope.Lookup(n).(type) {
		case *types.Func:
			out = append(out, o)
		case *types.TypeName:
			if o.IsAlias() {
				continue
			}
			if named, ok := o.Type().(*types.Named); ok {
				for i := 0; i < named.NumMethods(); i++ {
					out = append(out, named.Method(i))
				}
			}
		}
	}
	return out
}

func (p *prop) runCorpus(c core.Case, w *core.Worker, res *core.Result) {
	var pa params
	c.Decode(&pa)
	fixture.CleanGoEnv()
	var u *gengotypes.Universe
	var err error
	pk, pv, _ := core.Guard(func() { u, err = gengotypes.Load([]string{"github.com/octohelm/gengo/..."}, gengotypes.WithDir(w.Repo)) })
	if pk || err != nil {
		res.Inconclusive = append(res.Inconclusive, fmt.Sprintf("loading the corpus failed: %v %v", pv, err))
		return
	}
	// deterministic package list: BFS over type-checker imports
	seen := map[string]bool{}
	var paths []string
	var visit func(string)
	visit = func(path string) {
		if seen[path] || path == "unsafe" {
			return
		}
		seen[path] = true
		gp := u.Package(path)
		if gp == nil {
			return
		}
		paths = append(paths, path)
		for _, ip := range gp.Pkg().Imports() {
			visit(ip.Path())
		}
	}
	for _, r := range []string{"github.com/octohelm/gengo/pkg/gengo", "github.com/octohelm/gengo/pkg/types", "github.com/octohelm/gengo/devpkg/deepcopygen", "github.com/octohelm/gengo/devpkg/runtimedocgen",
		"github.com/octohelm/gengo/devpkg/partialstruct", "github.com/octohelm/gengo/devpkg/defaultergen", "github.com/octohelm/gengo/testdata/a", "github.com/octohelm/gengo/testdata/a/b", "github.com/octohelm/gengo/testdata/a/c",
		"github.com/octohelm/gengo/pkg/inflector", "github.com/octohelm/gengo/pkg/namer/__generators__"} {
		visit(r)
	}
	sort.Strings(paths)
	sub := 0
	type asked struct {
		p     gengotypes.Package
		fn    *types.Func
		first string
	}
	var reask []asked
	for pi, path := range paths {
		if pi%pa.Of != pa.Shard {
			continue
		}
		gp := u.Package(path)
		for _, fn := range allFuncs(gp) {
			idx := sub
			sub++
			if idx < c.Resume {
				continue
			}
			w.BeginSub(c.ID, idx, fn.FullName())
			res.Evals++
			if fn.Type().(*types.Signature).Results().Len() > 0 {
				res.NonTrivial("corpus|" + fn.FullName())
			}
			if r0, ok := checkFunc(res, gp, fn, "corpus"); ok && len(r0) > 0 && len(reask) < 1500 {
				reask = append(reask, asked{gp, fn, safeString(r0)})
			}
			res.Inc("corpus_functions_checked")
		}
		res.Inc("corpus_packages_checked")
	}
	// the same questions again after every other package of the shard has been asked about its own functions
	if sub >= c.Resume {
		w.BeginSub(c.ID, sub, "re-asking the corpus sample")
		for _, a := range reask {
			var again gengotypes.FuncResults
			budgetArmed, steps = true, 0
			pk, _, _ := core.Guard(func() { again, _ = a.p.ResultsOf(a.fn) })
			budgetArmed = false
			if pk {
				continue
			}
			res.Inc("answers_re_asked_after_other_packages_were_queried")
			if s2 := safeString(again); s2 != a.first {
				res.Fail("unstable", "corpus unstable-across-packages", fmt.Sprintf("%s: the answer changed after other packages had been asked about their own functions: first %s, later %s", a.fn.FullName(), a.first, s2), map[string]any{"func": a.fn.FullName()})
			}
		}
	}
	res.Sample(map[string]any{"corpus_shard": pa.Shard, "packages_in_closure": len(paths), "functions_in_shard": sub}, 1)
}

// ---------------------------------------------------------------------------------------
// generated functions

type litExpect struct {
	Func string
	Want [][]string // per position: ExactString of constants, or "nil"
}

type fgen struct {
	r   *rand.Rand
	b   *strings.Builder
	n   int
	lit []litExpect
}

func (g *fgen) w(format string, a ...any) {
	fmt.Fprintf(g.b, format, a...)
	g.b.WriteString("\n")
}

type litKind struct {
	typ string
}

// randLit returns (source expression, expected exact string) for a result of the given declared type.
// exactOf: the exact value of an untyped literal expression as go/constant prints it (what the SOURCE says, before
// any conversion to the result type)
func exactOf(parts ...string) string {
	lit := func(s string) constant.Value {
		switch {
		case strings.HasSuffix(s, "i"):
			return constant.MakeFromLiteral(s, token.IMAG, 0)
		case strings.HasPrefix(s, "'"):
			return constant.MakeFromLiteral(s, token.CHAR, 0)
		case strings.ContainsAny(s, ".eE") && !strings.HasPrefix(s, "0x"):
			return constant.MakeFromLiteral(s, token.FLOAT, 0)
		}
		return constant.MakeFromLiteral(s, token.INT, 0)
	}
	v := lit(parts[0])
	for i := 1; i+1 < len(parts); i += 2 {
		op := map[string]token.Token{"+": token.ADD, "-": token.SUB, "*": token.MUL}[parts[i]]
		v = constant.BinaryOp(v, op, lit(parts[i+1]))
	}
	return v.ExactString()
}

func (g *fgen) randLit(typ string) (string, string) {
	switch typ {
	case "float64", "float32", "complex128", "any":
		// literals whose exact value differs from what the result type can hold, or whose kind differs from it
		var pool [][]string
		switch typ {
		case "float64":
			pool = [][]string{{"0.1"}, {"2.5"}, {"1e3"}, {"1234567"}, {"3.14159265358979323846264338327950288"}, {"0.1", "+", "0.2"}, {"7"}, {"1e-320"}}
		case "float32":
			pool = [][]string{{"0.1"}, {"16777217"}, {"1.5"}, {"3"}, {"0.3", "*", "3"}}
		case "complex128":
			pool = [][]string{{"1"}, {"2.5"}, {"1i"}, {"0.1"}, {"3", "+", "4i"}}
		default:
			if g.r.Intn(4) == 0 {
				return "nil", "nil"
			}
			pool = [][]string{{"0.1"}, {"42"}, {"'x'"}, {"1", "+", "0.5"}, {"2i"}}
		}
		pick := pool[g.r.Intn(len(pool))]
		return strings.Join(pick, " "), exactOf(pick...)
	case "int", "int64":
		a, b := g.r.Intn(50), g.r.Intn(50)
		switch g.r.Intn(5) {
		case 0:
			return strconv.Itoa(a), strconv.Itoa(a)
		case 1:
			return fmt.Sprintf("-%d", a+1), strconv.Itoa(-(a + 1))
		case 2:
			return fmt.Sprintf("%d + %d", a, b), strconv.Itoa(a + b)
		case 3:
			return fmt.Sprintf("(%d * %d)", a, b), strconv.Itoa(a * b)
		}
		return fmt.Sprintf("0x%x", a), strconv.Itoa(a)
	case "string":
		ws := []string{"a", "bc", "raw", "x y", "é", ""}
		a, b := ws[g.r.Intn(len(ws))], ws[g.r.Intn(len(ws))]
		switch g.r.Intn(3) {
		case 0:
			return strconv.Quote(a), strconv.Quote(a)
		case 1:
			return strconv.Quote(a) + " + " + strconv.Quote(b), strconv.Quote(a + b)
		}
		return "`" + a + "`", strconv.Quote(a)
	case "bool":
		switch g.r.Intn(4) {
		case 0:
			return "true", "true"
		case 1:
			return "false", "false"
		case 2:
			return "!true", "false"
		}
		return "1 < 2", "true"
	default: // error, *int, []string, any(nil)
		return "nil", "nil"
	}
}

var litTypes = []string{"int", "string", "bool", "error", "*int", "[]string", "int64", "float64", "float32", "complex128", "any", "float64"}

func (g *fgen) literalOnly() {
	g.n++
	name := fmt.Sprintf("Lit_%d", g.n)
	arity := 1 + g.r.Intn(4)
	typs := make([]string, arity)
	for i := range typs {
		typs[i] = litTypes[g.r.Intn(len(litTypes))]
	}
	want := make([][]string, arity)
	ret := func(ind string) {
		var es []string
		for i, t := range typs {
			src, exp := g.randLit(t)
			es = append(es, src)
			want[i] = append(want[i], exp)
		}
		g.w("%sreturn %s", ind, strings.Join(es, ", "))
	}
	g.w("func %s(n int) (%s) {", name, strings.Join(typs, ", "))
	k := 1 + g.r.Intn(4)
	for j := 0; j < k; j++ {
		switch g.r.Intn(14) {
		case 4:
			// labeled loop, return inside, the label is used
			g.w("\touter%d:\n\tfor i := 0; i < n; i++ {\n\t\tfor k := 0; k < i; k++ {\n\t\t\tif k == %d {", j, j)
			ret("\t\t\t\t")
			g.w("\t\t\t}\n\t\t\tif k > 100 {\n\t\t\t\tbreak outer%d\n\t\t\t}\n\t\t}\n\t}", j)
		case 5:
			// labeled switch
			g.w("\tsw%d:\n\tswitch {\n\tcase n > %d:\n\t\tif n > 1000 {\n\t\t\tbreak sw%d\n\t\t}", j, j, j)
			ret("\t\t")
			g.w("\t}")
		case 6:
			// select
			g.w("\t{\n\t\tch := make(chan int, 1)\n\t\tselect {\n\t\tcase v := <-ch:\n\t\t\t_ = v")
			ret("\t\t\t")
			g.w("\t\tdefault:\n\t\t}\n\t}")
		case 7:
			// type switch
			g.w("\tswitch x := any(n).(type) {\n\tcase string:\n\t\t_ = x")
			ret("\t\t")
			g.w("\tcase int:\n\t\t_ = x\n\t}")
		case 8:
			// range loop + else branch
			g.w("\tfor _, v := range []int{1, 2, 3} {\n\t\tif v == n {\n\t\t\tcontinue\n\t\t} else if v > n+%d {", j)
			ret("\t\t\t")
			g.w("\t\t}\n\t}")
		case 9:
			// bare block and if with an init statement, else branch
			g.w("\t{\n\t\tif m := n * 2; m == %d {\n\t\t\t_ = m\n\t\t} else {", j)
			ret("\t\t\t")
			g.w("\t\t}\n\t}")
		case 10:
			// goto target
			g.w("\tif n == -%d {\n\t\tgoto done%d\n\t}\n\tif n == %d {", j+1, j, j+500)
			ret("\t\t")
			g.w("\t}\ndone%d:\n\tif n == %d {", j, j+700)
			ret("\t\t")
			g.w("\t}")
		case 11:
			// deferred and go closures with their own returns: must be ignored
			g.w("\tdefer func() int {\n\t\treturn 998\n\t}()\n\tgo func() (string, error) {\n\t\treturn \"goroutine\", nil\n\t}()")
		case 12:
			// switch with init and fallthrough
			g.w("\tswitch m := n %% 3; m {\n\tcase 0:\n\t\tfallthrough\n\tcase 1:")
			ret("\t\t")
			g.w("\t}")
		case 13:
			// closure assigned and called: its returns are not this function's
			g.w("\tf%d := func(a int) (bool, int) {\n\t\tif a > 0 {\n\t\t\treturn true, 997\n\t\t}\n\t\treturn false, 996\n\t}\n\t_, _ = f%d(n)", j, j)
		case 0:
			g.w("\tif n == %d {", j)
			ret("\t\t")
			g.w("\t}")
		case 1:
			g.w("\tswitch n {\n\tcase %d:", j+10)
			ret("\t\t")
			g.w("\tdefault:\n\t}")
		case 2:
			g.w("\tfor i := 0; i < n; i++ {\n\t\tif i == %d {", j)
			ret("\t\t\t")
			g.w("\t\t}\n\t}")
		case 3:
			// a nested closure with its own returns: must be ignored
			g.w("\t_ = func() (int, string) {\n\t\treturn 999, \"closure\"\n\t}")
		}
	}
	ret("\t")
	g.w("}\n")
	g.lit = append(g.lit, litExpect{Func: name, Want: want})
}

var tupleTypes = [][]string{{"int", "error"}, {"string", "error"}, {"error", "int"}, {"int", "string", "error"}, {"error", "int", "string"}, {"int", "error", "string"}, {"error"}, {"*T", "error"}, {"any", "error"}}

func zero(t string) string {
	switch t {
	case "int":
		return "0"
	case "string":
		return `"z"`
	case "error", "*T", "any":
		return "nil"
	}
	return "nil"
}

func (g *fgen) families() {
	g.n++
	s := g.n
	tt := tupleTypes[g.r.Intn(len(tupleTypes))]
	sigS := "(" + strings.Join(tt, ", ") + ")"
	zs := make([]string, len(tt))
	vs := make([]string, len(tt))
	for i, t := range tt {
		zs[i] = zero(t)
		vs[i] = fmt.Sprintf("v%d", i)
	}
	// direct recursion, tuple forwarding
	g.w("func RecFwd_%d(n int) %s {\n\tif n == 0 {\n\t\treturn %s\n\t}\n\treturn RecFwd_%d(n - 1)\n}\n", s, sigS, strings.Join(zs, ", "), s)
	// direct recursion through assignment
	g.w("func RecAsg_%d(n int) %s {\n\tif n == 0 {\n\t\treturn %s\n\t}\n\t%s := RecAsg_%d(n - 1)\n\treturn %s\n}\n", s, sigS, strings.Join(zs, ", "), strings.Join(vs, ", "), s, strings.Join(vs, ", "))
	// mutual recursion
	g.w("func MutA_%d(n int) %s {\n\treturn MutB_%d(n)\n}\n", s, sigS, s)
	g.w("func MutB_%d(n int) %s {\n\tif n == 0 {\n\t\treturn %s\n\t}\n\treturn MutA_%d(n - 1)\n}\n", s, sigS, strings.Join(zs, ", "), s)
	// named results, bare return, recursion at every index
	named := make([]string, len(tt))
	for i, t := range tt {
		named[i] = fmt.Sprintf("r%d %s", i, t)
	}
	rs := make([]string, len(tt))
	for i := range tt {
		rs[i] = fmt.Sprintf("r%d", i)
	}
	g.w("func RecNamed_%d(n int) (%s) {\n\tif n > 0 {\n\t\t%s = RecNamed_%d(n - 1)\n\t\treturn\n\t}\n\t%s = %s\n\treturn\n}\n", s, strings.Join(named, ", "), strings.Join(rs, ", "), s, strings.Join(rs, ", "), strings.Join(zs, ", "))
	// three-way cycle with error wrapping
	g.w("func Cyc1_%d(n int) error {\n\tif n == 0 {\n\t\treturn errors.New(\"c1\")\n\t}\n\treturn rp.Wrap(Cyc2_%d(n - 1))\n}\n", s, s)
	g.w("func Cyc2_%d(n int) error {\n\terr := Cyc3_%d(n)\n\tif err != nil {\n\t\treturn fmt.Errorf(\"w: %%w\", err)\n\t}\n\treturn nil\n}\n", s, s)
	g.w("func Cyc3_%d(n int) error {\n\treturn Cyc1_%d(n)\n}\n", s, s)
	// method recursion
	g.w("func (t *T) RecM_%d(n int) (*T, error) {\n\tif n == 0 {\n\t\treturn t, nil\n\t}\n\treturn t.RecM_%d(n - 1)\n}\n", s, s)

	// closures passed as arguments
	g.w("func calleeEq_%d(f func() error) error { return f() }\n", s)
	g.w("func ClosEq_%d() error {\n\treturn calleeEq_%d(func() error {\n\t\tif true {\n\t\t\treturn errors.New(\"c\")\n\t\t}\n\t\treturn nil\n\t})\n}\n", s, s)
	g.w("func calleeMore_%d(f func() (int, error, string)) error {\n\t_, err, _ := f()\n\treturn err\n}\n", s)
	g.w("func ClosMore_%d() error {\n\treturn calleeMore_%d(func() (int, error, string) { return 7, nil, \"s\" })\n}\n", s, s)
	g.w("func calleePerm_%d(f func() (error, int)) (int, error) {\n\te, i := f()\n\treturn i, e\n}\n", s)
	g.w("func ClosPerm_%d() (int, error) {\n\treturn calleePerm_%d(func() (error, int) { return nil, 7 })\n}\n", s, s)
	g.w("func calleeFewer_%d(f func() error) (string, int, error) {\n\treturn \"a\", 1, f()\n}\n", s)
	g.w("func ClosFewer_%d() (string, int, error) {\n\treturn calleeFewer_%d(func() error { return errors.New(\"f\") })\n}\n", s, s)
	g.w("func calleeBytes_%d(f func() ([]byte, error)) error {\n\t_, err := f()\n\treturn err\n}\n", s)
	g.w("func ClosBytes_%d() error {\n\treturn calleeBytes_%d(func() ([]byte, error) { return []byte(\"x\"), nil })\n}\n", s, s)
	g.w("func calleeTwo_%d(a func() (string, error), b func() (error, string, int)) (int, error) {\n\treturn 1, nil\n}\n", s)
	g.w("func ClosTwo_%d() (int, error) {\n\treturn calleeTwo_%d(func() (string, error) { return \"q\", nil }, func() (error, string, int) { return nil, \"r\", 3 })\n}\n", s, s)

	// recursion that passes through a func literal (seeded change C14-l: a fresh visited set per closure argument):
	// closure argument of an error-returning callee, mutual recursion through closures, a closure held in a variable,
	// an immediately invoked literal, a method callee, a generic callee, the second of two closure arguments,
	// a closure nested in a closure
	g.w("func withTx_%d(f func(k int) error) error { return f(0) }\n", s)
	g.w("func RecClos_%d(n int) error {\n\treturn withTx_%d(func(k int) error {\n\t\tif k > n {\n\t\t\treturn errors.New(\"deep\")\n\t\t}\n\t\treturn RecClos_%d(k + 1)\n\t})\n}\n", s, s, s)
	g.w("func try_%d(f func() (int, error)) (int, error) { return f() }\n", s)
	g.w("func PingClos_%d() (int, error) {\n\treturn try_%d(func() (int, error) { return PongClos_%d() })\n}\n", s, s, s)
	g.w("func PongClos_%d() (int, error) {\n\treturn try_%d(func() (int, error) { return PingClos_%d() })\n}\n", s, s, s)
	g.w("func RecClosVar_%d(n int) error {\n\tf := func() error { return RecClosVar_%d(n - 1) }\n\tif n == 0 {\n\t\treturn nil\n\t}\n\treturn f()\n}\n", s, s)
	g.w("func RecIIFE_%d(n int) error {\n\treturn func() error {\n\t\tif n == 0 {\n\t\t\treturn io.EOF\n\t\t}\n\t\treturn RecIIFE_%d(n - 1)\n\t}()\n}\n", s, s)
	g.w("func (t *T) with_%d(f func() error) error { return f() }\n", s)
	g.w("func (t *T) RecClosM_%d() error {\n\treturn t.with_%d(func() error { return t.RecClosM_%d() })\n}\n", s, s, s)
	g.w("func tryG_%d[X any](f func() (X, error)) (X, error) { return f() }\n", s)
	g.w("func RecGen_%d() (int, error) {\n\treturn tryG_%d(func() (int, error) { return RecGen_%d() })\n}\n", s, s, s)
	g.w("func with2_%d(n int, a func() error, b func() error) error {\n\tif n > 0 {\n\t\treturn a()\n\t}\n\treturn b()\n}\n", s)
	g.w("func RecSecondArg_%d() error {\n\treturn with2_%d(1, func() error { return nil }, func() error { return RecSecondArg_%d() })\n}\n", s, s, s)
	g.w("func RecNestedClos_%d() error {\n\treturn withTx_%d(func(k int) error {\n\t\treturn withTx_%d(func(j int) error { return RecNestedClos_%d() })\n\t})\n}\n", s, s, s, s)
	g.w("func RecClosTuple_%d(n int) (int, error) {\n\treturn try_%d(func() (int, error) {\n\t\tv, err := RecClosTuple_%d(n - 1)\n\t\tif err != nil {\n\t\t\treturn 0, rp.Wrap(err)\n\t\t}\n\t\treturn v, nil\n\t})\n}\n", s, s, s)

	// fields of DIFFERENT instantiations of one generic struct are different variables: an assignment through
	// GBox[int] says nothing about a field of GBox[string] (seeded change C14-n: fields compared by Origin())
	g.w("type GBox_%d[T any] struct {\n\tV T\n\tN int\n}\n", s)
	g.w("func GenFieldSwap_%d() string {\n\tlabel := GBox_%d[string]{V: \"x\"}\n\tcount := GBox_%d[int]{}\n\tcount.V = 2\n\t_ = count\n\treturn label.V\n}\n", s, s, s)
	g.w("func GenFieldBoth_%d() (string, int, error) {\n\tlabel := GBox_%d[string]{}\n\tcount := GBox_%d[int]{}\n\tfail := GBox_%d[error]{}\n\tlabel.V = \"l\"\n\tfail.V = io.EOF\n\tcount.V = 2\n\treturn label.V, count.V, fail.V\n}\n", s, s, s, s)
	g.w("func GenFieldErr_%d() error {\n\tfail := GBox_%d[error]{}\n\tn := GBox_%d[int]{}\n\tfail.V = errors.New(\"e\")\n\tn.V = 7\n\t_ = n\n\treturn fail.V\n}\n", s, s, s)

	// compound assignments: the operand on the right is not the value of the variable (n <<= s with an unsigned s leaves
	// n an int; x += 1.5 leaves a float64 x a float64; s += "x" a string)
	g.w("func ShiftAsg_%d(s uint) int {\n\tn := 1\n\tn <<= s\n\treturn n\n}\n", s)
	g.w("func AddAsg_%d(d time.Duration) (time.Duration, string) {\n\ttotal := time.Second\n\tname := \"a\"\n\ttotal += d * 2\n\tname += \"b\"\n\treturn total, name\n}\n", s)
	g.w("func IncDec_%d() (int, float64) {\n\ti := 0\n\tf := 1.5\n\ti++\n\tf--\n\treturn i, f\n}\n", s)

	// calls into the second package, interfaces, forwarding
	g.w("func Fwd_%d() (int, error) {\n\treturn rp.Lit()\n}\n", s)
	g.w("func FwdAsg_%d() (int, error) {\n\tv, err := rp.Lit()\n\tif err != nil {\n\t\treturn 0, rp.Wrap(err)\n\t}\n\treturn v + 1, nil\n}\n", s)
	g.w("func Iface_%d(d rp.Doer) (string, error) {\n\treturn d.Do()\n}\n", s)
	g.w("func IfaceNew_%d() (string, error) {\n\treturn rp.New().Do()\n}\n", s)
	// variadic callees: plain arguments, the spread form f(xs...) with a local slice / a composite literal / a struct
	// field / a call result / a parameter, a non-error variadic, and errors.Join
	g.w("func joinAll_%d(errs ...error) error {\n\tfor _, e := range errs {\n\t\tif e != nil {\n\t\t\treturn e\n\t\t}\n\t}\n\treturn nil\n}\n", s)
	g.w("func Variadic_%d() error {\n\treturn joinAll_%d(errors.New(\"v1\"), ErrSentinel)\n}\n", s, s)
	g.w("func SpreadLocal_%d(n int) error {\n\tvar errs []error\n\terrs = append(errs, errors.New(\"a\"))\n\tif n > 0 {\n\t\terrs = append(errs, fmt.Errorf(\"b %%d\", n))\n\t}\n\treturn joinAll_%d(errs...)\n}\n", s, s)
	g.w("func SpreadLit_%d() error {\n\terrs := []error{errors.New(\"x\"), nil}\n\treturn errors.Join(errs...)\n}\n", s)
	g.w("func collect_%d() []error {\n\treturn []error{errors.New(\"c\")}\n}\n", s)
	g.w("func SpreadCall_%d() error {\n\treturn joinAll_%d(collect_%d()...)\n}\n", s, s, s)
	g.w("func SpreadParam_%d(errs []error) error {\n\treturn joinAll_%d(errs...)\n}\n", s, s)
	g.w("type bag_%d struct {\n\terrs []error\n}\n", s)
	g.w("func (b *bag_%d) SpreadField_%d() error {\n\treturn joinAll_%d(b.errs...)\n}\n", s, s, s)
	g.w("func VariadicAny_%d(a ...any) error {\n\treturn fmt.Errorf(\"x %%v\", a...)\n}\n", s)
	g.w("func joinTwo_%d(first error, rest ...error) (int, error) {\n\tif first != nil {\n\t\treturn 1, first\n\t}\n\treturn 0, joinAll_%d(rest...)\n}\n", s, s)
	g.w("func SpreadSecond_%d() (int, error) {\n\trest := []error{io.EOF}\n\treturn joinTwo_%d(nil, rest...)\n}\n", s, s)
	g.w("func AnyRes_%d(c bool) any {\n\tif c {\n\t\treturn rp.Any()\n\t}\n\treturn 1\n}\n", s)
	// identifier chasing, branches
	g.w("func Chase_%d() (int, string) {\n\tx := 1\n\ty := x\n\ts := \"a\"\n\ts = \"b\"\n\treturn y, s\n}\n", s)
	g.w("func Branch_%d(c bool) error {\n\tvar err error\n\tif c {\n\t\terr = errors.New(\"a\")\n\t} else {\n\t\terr = rp.Wrap(io.EOF)\n\t}\n\treturn err\n}\n", s)
	g.w("func Multi_%d() (int, string, error) {\n\ta, b := 1, \"s\"\n\tvar e error\n\treturn a, b, e\n}\n", s)
	// generics, curried, no return
	g.w("func Gen_%d[X any](v X) (X, error) {\n\treturn v, nil\n}\n", s)
	g.w("func UseGen_%d() (int, error) {\n\treturn Gen_%d(1)\n}\n", s, s)
	g.w("func Curry_%d() func() (int, error) {\n\treturn func() (int, error) { return 1, nil }\n}\n", s)
	g.w("func UseCurry_%d() (int, error) {\n\treturn Curry_%d()()\n}\n", s, s)
	g.w("func NoRet_%d() (int, error) {\n\tpanic(\"x\")\n}\n", s)
	g.w("func Conv_%d() (T, *T, []int, map[string]int, func()) {\n\treturn T{}, &T{}, []int{1}, nil, func() {}\n}\n", s)
	g.w("func FieldRet_%d(t *T) (int, error) {\n\tt.N = 3\n\treturn t.N, t.Err\n}\n", s)
	g.w("func Variadic_%d(xs ...int) ([]int, int) {\n\treturn xs, len(xs)\n}\n", s)
	g.w("func ErrVar_%d() error {\n\treturn ErrSentinel\n}\n", s)
	g.w("func Defer_%d() (err error) {\n\tdefer func() {\n\t\terr = errors.New(\"d\")\n\t}()\n\treturn nil\n}\n", s)
	g.w("func Select_%d(ch chan int) (int, bool) {\n\tselect {\n\tcase v, ok := <-ch:\n\t\treturn v, ok\n\tdefault:\n\t\treturn -1, false\n\t}\n}\n", s)
	g.w("func Shadowed_%d() (int, error) {\n\terr := errors.New(\"outer\")\n\t{\n\t\terr := 5\n\t\t_ = err\n\t}\n\treturn 0, err\n}\n", s)
	g.w("func Grouped_%d(c bool) (host, port string, err error) {\n\thost = \"localhost\"\n\tif c {\n\t\tport, err = \"80\", errors.New(\"g\")\n\t\treturn\n\t}\n\tport = \"443\"\n\treturn\n}\n", s)
	g.w("func Grouped2_%d() (a, b int, s string, e1, e2 error) {\n\ta, b = 1, 2\n\ts = \"x\"\n\te2 = errors.New(\"two\")\n\treturn\n}\n", s)
	g.w("func callWide_%d(f func() ([]byte, int, error)) error {\n\t_, _, err := f()\n\treturn err\n}\n", s)
	g.w("func ClosWideInNarrow_%d() error {\n\treturn callWide_%d(func() ([]byte, int, error) { return nil, 0, errors.New(\"w\") })\n}\n", s, s)
	g.w("func ClosWideNamed_%d() (err error) {\n\terr = callWide_%d(func() ([]byte, int, error) {\n\t\tif true {\n\t\t\treturn []byte(\"a\"), 1, nil\n\t\t}\n\t\treturn nil, 0, io.EOF\n\t})\n\treturn\n}\n", s, s)
	g.w("func ClosAnyErr_%d() (any, error) {\n\treturn 1, callWide_%d(func() ([]byte, int, error) { return nil, 2, nil })\n}\n", s, s)
	g.w("func TypeSwitch_%d(v any) (string, error) {\n\tswitch x := v.(type) {\n\tcase string:\n\t\treturn x, nil\n\tcase error:\n\t\treturn \"\", x\n\t}\n\treturn \"\", nil\n}\n", s)
}

const rpSrc = `package rp

import "errors"

type Doer interface{ Do() (string, error) }

type impl struct{}

func (impl) Do() (string, error) { return "x", nil }

func New() Doer { return impl{} }

func Lit() (int, error) { return 1, nil }

func Wrap(err error) error { return err }

func Any() any { return "s" }

func Rec(n int) (int, error) {
	if n == 0 {
		return 0, errors.New("rp")
	}
	return Rec(n - 1)
}

func Three() (int, string, error) { return 1, "a", nil }
`

func (p *prop) runGenerated(c core.Case, w *core.Worker, res *core.Result) {
	var pa params
	c.Decode(&pa)
	r := rand.New(rand.NewSource(c.Seed))
	for i := 0; i < pa.N; i++ {
		m, err := fixture.New(w.Scratch, fmt.Sprintf("c14-%d-%d", c.ID, i), "example.com/c14", "1.24")
		if err != nil {
			res.Inconclusive = append(res.Inconclusive, err.Error())
			return
		}
		g := &fgen{r: r, b: &strings.Builder{}}
		g.w("package rq\n\nimport (\n\t\"errors\"\n\t\"fmt\"\n\t\"io\"\n\t\"time\"\n\n\t\"example.com/c14/rp\"\n)\n")
		g.w("var _ = fmt.Sprint\nvar _ = io.EOF\nvar _ time.Duration\n\ntype T struct {\n\tN   int\n\tErr error\n}\n\nvar ErrSentinel = errors.New(\"sentinel\")\n")
		for j := 0; j < 12; j++ {
			g.literalOnly()
		}
		for j := 0; j < 3; j++ {
			g.families()
		}
		// a caller package that calls rq/rp functions, for cross-package queries
		var qs strings.Builder
		qs.WriteString("package rx\n\nimport (\n\t\"example.com/c14/rp\"\n\t\"example.com/c14/rq\"\n)\n\nfunc UseAll() {\n\t_, _ = rp.Lit()\n\t_, _ = rp.Rec(1)\n\t_, _, _ = rp.Three()\n\t_ = rp.Wrap(nil)\n\t_ = rq.ErrVar_" + strconv.Itoa(g.n) + "()\n}\n")
		src := g.b.String()
		m.MustWrite("rp/rp.go", rpSrc)
		m.MustWrite("rq/rq.go", src)
		m.MustWrite("rx/rx.go", qs.String())
		var u *gengotypes.Universe
		pk, pv, _ := core.Guard(func() { u, err = gengotypes.Load([]string{"example.com/c14/rx", "example.com/c14/rq"}, gengotypes.WithDir(m.Root)) })
		if pk || err != nil {
			res.Inconclusive = append(res.Inconclusive, fmt.Sprintf("types.Load failed on generated functions: %v %v", pv, err))
			m.Remove()
			continue
		}
		rq, rp, rx := u.Package("example.com/c14/rq"), u.Package("example.com/c14/rp"), u.Package("example.com/c14/rx")
		if rq == nil || rp == nil || rx == nil || rq.Pkg().Scope().Lookup("ErrSentinel") == nil {
			res.Inconclusive = append(res.Inconclusive, "generated package did not load / type-check")
			m.Remove()
			continue
		}
		sub := 0
		funcs := allFuncs(rq)
		firstAnswers := map[*types.Func]string{}
		for _, fn := range funcs {
			sub++
			if i*10000+sub < c.Resume {
				continue
			}
			w.BeginSub(c.ID, i*10000+sub, fn.Name())
			res.Evals++
			res.NonTrivial("gen|" + fn.Name() + "|" + strconv.FormatInt(c.Seed, 10) + "|" + strconv.Itoa(i))
			if r0, ok := checkFunc(res, rq, fn, "generated"); ok {
				firstAnswers[fn] = safeString(r0)
			}
			res.Inc("generated_functions_checked")
		}
		// literal-only expectations
		for _, le := range g.lit {
			if i*10000+8000 < c.Resume {
				continue
			}
			fn, _ := rq.Pkg().Scope().Lookup(le.Func).(*types.Func)
			if fn == nil {
				continue
			}
			var results gengotypes.FuncResults
			if pk, _, _ := core.Guard(func() { results, _ = rq.ResultsOf(fn) }); pk || len(results) != len(le.Want) {
				continue // already reported by checkFunc
			}
			for pos, alts := range results {
				var got []string
				for _, a := range alts {
					if a.Value != nil {
						got = append(got, a.Value.ExactString())
					} else if b, ok := a.Type.(*types.Basic); ok && b.Kind() == types.UntypedNil {
						got = append(got, "nil")
					} else {
						got = append(got, "type:"+a.Type.String())
					}
				}
				res.Inc("literal_positions_compared")
				if strings.Join(got, " | ") != strings.Join(le.Want[pos], " | ") {
					res.Fail("literal-exact", "generated literal-only", fmt.Sprintf("%s result %d: alternatives %v, want exactly %v in source order\n%s", le.Func, pos, got, le.Want[pos], funcSource(src, le.Func)), map[string]any{"func": le.Func})
				}
			}
		}
		// cross-package queries
		for _, q := range []gengotypes.Package{rx, rq} {
			for _, fn := range allFuncs(rp) {
				if i*10000+9000 < c.Resume {
					continue
				}
				w.BeginSub(c.ID, i*10000+9000, "cross:"+fn.Name())
				res.Evals++
				checkFunc(res, q, fn, "cross-package")
				res.Inc("cross_package_queries")
			}
		}
		for _, fn := range funcs[:min(len(funcs), 20)] {
			if i*10000+9500 < c.Resume {
				continue
			}
			w.BeginSub(c.ID, i*10000+9500, "cross:"+fn.Name())
			checkFunc(res, rx, fn, "cross-package")
			res.Inc("cross_package_queries")
		}
		// the answer is the same on every call - also after OTHER packages have been asked about their own functions
		// in between (whatever a package indexes lazily on its first question must not change what an importer is told)
		if i*10000+9700 >= c.Resume {
			w.BeginSub(c.ID, i*10000+9700, "owner queries on rp")
			for _, fn := range allFuncs(rp) {
				core.Guard(func() { rp.ResultsOf(fn) })
			}
			for _, fn := range allFuncs(rx) {
				core.Guard(func() { rx.ResultsOf(fn) })
			}
			w.BeginSub(c.ID, i*10000+9800, "re-asking rq")
			for _, fn := range funcs {
				first, ok := firstAnswers[fn]
				if !ok {
					continue
				}
				var again gengotypes.FuncResults
				budgetArmed, steps = true, 0
				pk, _, _ := core.Guard(func() { again, _ = rq.ResultsOf(fn) })
				budgetArmed = false
				if pk {
					continue
				}
				res.Inc("answers_re_asked_after_other_packages_were_queried")
				if s2 := safeString(again); s2 != first {
					res.Fail("unstable", "generated unstable-across-packages "+shortKey(fn.FullName(), "generated"), fmt.Sprintf("%s: the answer changed after other packages had been asked about their own functions: first %s, later %s", fn.FullName(), first, s2), map[string]any{"func": fn.FullName()})
				}
			}
		}
		// the answer is a function of the function asked, not of what was asked before: a SECOND universe loaded from the
		// same sources is asked the same questions in reverse order (so that every function of a recursive family is
		// once the first and once the last one asked); every answer must equal the one the first universe gave
		if i*10000+9900 >= c.Resume {
			w.BeginSub(c.ID, i*10000+9900, "second universe, reverse order")
			var u2 *gengotypes.Universe
			var err2 error
			pk2, _, _ := core.Guard(func() { u2, err2 = gengotypes.Load([]string{"example.com/c14/rx", "example.com/c14/rq"}, gengotypes.WithDir(m.Root)) })
			if !pk2 && err2 == nil && u2.Package("example.com/c14/rq") != nil {
				rq2 := u2.Package("example.com/c14/rq")
				funcs2 := allFuncs(rq2)
				byName := map[string]string{}
				for fn, a := range firstAnswers {
					byName[fn.FullName()] = a
				}
				for k := len(funcs2) - 1; k >= 0; k-- {
					fn := funcs2[k]
					first, ok := byName[fn.FullName()]
					if !ok {
						continue
					}
					var other gengotypes.FuncResults
					budgetArmed, steps = true, 0
					pk, _, _ := core.Guard(func() { other, _ = rq2.ResultsOf(fn) })
					budgetArmed = false
					if pk {
						continue
					}
					res.Inc("answers_compared_with_a_second_universe_asked_in_reverse_order")
					if s2 := safeString(other); s2 != first {
						res.Fail("unstable", "generated order-dependent "+shortKey(fn.FullName(), "generated"), fmt.Sprintf("%s: the answer depends on what was asked before: asked in declaration order on one universe %s, asked in reverse order on a second universe of the same sources %s\n%s", fn.FullName(), first, s2, funcSource(src, fn.Name())), map[string]any{"func": fn.FullName()})
					}
				}
			}
		}
		if i == 0 && len(g.lit) > 0 {
			res.Sample(map[string]any{"literal_only_function": funcSource(src, g.lit[0].Func), "expected": g.lit[0].Want}, 1)
		}
		m.Remove()
	}
}

func funcSource(src, name string) string {
	i := strings.Index(src, "func "+name+"(")
	if i < 0 {
		return ""
	}
	j := strings.Index(src[i:], "\n}\n")
	if j < 0 {
		return src[i:]
	}
	return src[i : i+j+2]
}

func (p *prop) Run(c core.Case, w *core.Worker) core.Result {
	res := core.Result{CaseID: c.ID}
	switch c.Kind {
	case "corpus":
		p.runCorpus(c, w, &res)
	case "generated":
		p.runGenerated(c, w, &res)
	}
	return res
}
