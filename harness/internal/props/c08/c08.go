// Package c08: the gengo.sum cache never skips a package whose directory changed (model-based monitor).
package c08

import (
	"bytes"
	"crypto/sha256"
	"encoding/base64"
	"fmt"
	"io/fs"
	"math/rand"
	"os"
	"path/filepath"
	"sort"
	"strings"

	"github.com/octohelm/gengo/pkg/sumfile"

	"verif/internal/core"
	"verif/internal/fixture"
	"verif/internal/layout"
	"verif/internal/specgen"
)

func init() { core.Register(&prop{}) }

type prop struct{}

func (*prop) ID() string    { return "C08" }
func (*prop) Level() string { return "exploration" }
func (*prop) Rule() string {
	return "histories over a module with packages a -> b -> b/nested, c (optionally a package in the module root) from the alphabet {edit / add / delete a source file in p, add a non-Go file, hand-edit or delete a generated file, make p unhashable (dangling symlink) and repair it, delete gengo.sum, corrupt it (garbage, truncated, hashes swapped, entry removed, wrong hash), run All, run All+Force, run that fails in p, run on a subset of entrypoints, run non-All}: " +
		"every single operation followed by every run kind from three start states (never run, after one run, converged), plus seeded random histories of length 6-10 (quick) / up to 14 (thorough). After every run the harness compares with a reference state machine it keeps itself (own Hash1 over the directory tree as it was when the run started): " +
		"cached(p) => not Force and gengo.sum was readable and entry(p) == H(p at load) and H(p) != \"\"; every local package of the run is either executed or cached; after a successful All run gengo.sum equals the sorted `path hash` lines for exactly that run's local packages with hash = H(p at load) and sumfile.Load reads the same mapping back; after a failed or non-All run gengo.sum is unchanged; " +
		"from every reached state at most 3 further All runs without edits reach a run that executes nothing and changes no file (bounded convergence). Non-trivial = a run preceded by an edit or a cache manipulation, or a run in which at least one package was cached; distinct by hash of the history prefix."
}
func (*prop) Assumptions() []string {
	return []string{
		"the direction 'unchanged => cached' is asserted only at convergence; edits keep the module loadable",
		"for the package in the module root the model accepts the directory hash with or without gengo.sum itself",
		"which packages ran is observed through the verif hook (pkg:start / pkg:cached) and cross-checked with the recording generator's New log",
	}
}
func (*prop) MinDistinct(tier string) int64 {
	if tier == "thorough" {
		return 1200
	}
	return 200
}

const mod = "example.com/c08"

type op struct {
	Kind string `json:"k"`
	Pkg  string `json:"p,omitempty"` // dir
	Arg  string `json:"a,omitempty"`
}

func (o op) String() string { return strings.TrimSpace(o.Kind + " " + o.Pkg + " " + o.Arg) }

type history struct {
	Root  bool   `json:"root"`
	Start string `json:"start"` // fresh | once | converged
	Ops   []op   `json:"ops"`
	// Late: the package directories are called pa, pb, pb/nested, pc instead of a, b, b/nested, c: with a root package
	// every name in the module root then sorts AFTER gengo.sum (go.mod, pa, pb, pc, rootpkg_src.go)
	Late bool `json:"late,omitempty"`
}

func (h history) String() string {
	var s []string
	for _, o := range h.Ops {
		s = append(s, o.String())
	}
	if h.Late {
		return fmt.Sprintf("root=%v late-names start=%s: %s", h.Root, h.Start, strings.Join(s, " ; "))
	}
	return fmt.Sprintf("root=%v start=%s: %s", h.Root, h.Start, strings.Join(s, " ; "))
}

var editKinds = []string{"edit-src", "add-src", "del-src", "add-nongo", "edit-generated", "del-generated", "make-unhashable", "repair-unhashable"}
var sumKinds = []string{"del-sum", "sum-garbage", "sum-truncate", "sum-swap", "sum-drop-entry", "sum-wrong-hash", "sum-extra-fields", "sum-rename-entry", "sum-rename-entry"}
var runKinds = []string{"run-all", "run-all-force", "run-fail", "run-subset", "run-nonall"}

func pkgDirs(root bool) []string {
	d := []string{"a", "b", "b/nested", "c", "apis/foo/v1", "apis/bar/v1", "apis/bar/v1"}
	if root {
		d = append(d, ".")
	}
	return d
}

type params struct {
	Shard, Of int
	N         int
	MaxLen    int
}

func (*prop) Cases(seed int64, tier string) []core.Case {
	shards, nrand, per, maxLen := 16, 16, 2, 10
	if tier == "thorough" {
		shards, nrand, per, maxLen = 48, 128, 16, 14
	}
	var cs []core.Case
	for i := 0; i < shards; i++ {
		cs = append(cs, core.MkCase("enumerated", params{Shard: i, Of: shards}))
	}
	for i := 0; i < nrand; i++ {
		cs = append(cs, core.MkCase("random", params{N: per, MaxLen: maxLen}))
	}
	return cs
}

// enumerate: every single op followed by every run kind, from three start states, with/without root package.
func enumerate(tier string) []history {
	var hs []history
	for _, root := range []bool{false, true} {
		for _, start := range []string{"fresh", "once", "converged"} {
			var firsts []op
			for _, k := range editKinds {
				for _, p := range pkgDirs(root) {
					if tier != "thorough" && (p == "c" || p == "b/nested") && k != "edit-src" && k != "make-unhashable" {
						continue
					}
					firsts = append(firsts, op{Kind: k, Pkg: p})
				}
			}
			for _, k := range sumKinds {
				firsts = append(firsts, op{Kind: k})
			}
			firsts = append(firsts, op{Kind: "noop"})
			for _, f := range firsts {
				for _, rk := range runKinds {
					if tier != "thorough" && start == "once" && rk != "run-all" {
						continue
					}
					ro := op{Kind: rk}
					if rk == "run-fail" {
						ro.Pkg = "b"
					}
					hs = append(hs, history{Root: root, Start: start, Ops: []op{f, ro}})
				}
			}
		}
	}
	// late directory names with a root package: gengo.sum is the FIRST name in the module root
	for _, start := range []string{"fresh", "once", "converged"} {
		for _, f := range []op{{Kind: "noop"}, {Kind: "edit-src", Pkg: "."}, {Kind: "edit-src", Pkg: "a"}, {Kind: "del-sum"}, {Kind: "sum-garbage"}} {
			for _, rk := range []string{"run-all", "run-all-force", "run-subset"} {
				hs = append(hs, history{Root: true, Late: true, Start: start, Ops: []op{f, {Kind: rk}}})
			}
		}
	}
	return hs
}

// ---------------------------------------------------------------------------------------
// reference Hash1 (written from the h1: definition, not using x/mod)

func refHash1(dir string, skipTopLevel string) string {
	var files []string
	err := filepath.WalkDir(dir, func(p string, d fs.DirEntry, err error) error {
		if err != nil {
			return err
		}
		if d.IsDir() {
			return nil
		}
		rel, _ := filepath.Rel(dir, p)
		files = append(files, filepath.ToSlash(rel))
		return nil
	})
	if err != nil {
		return ""
	}
	sort.Strings(files)
	h := sha256.New()
	for _, f := range files {
		if f == skipTopLevel {
			continue
		}
		b, err := os.ReadFile(filepath.Join(dir, f)) // follows symlinks: a dangling one makes the directory unhashable
		if err != nil {
			return ""
		}
		fh := sha256.Sum256(b)
		fmt.Fprintf(h, "%x  %s\n", fh, f)
	}
	return "h1:" + base64.StdEncoding.EncodeToString(h.Sum(nil))
}

func parseSum(b []byte) map[string]string {
	m := map[string]string{}
	for _, line := range bytes.Split(b, []byte("\n")) {
		f := bytes.Fields(line)
		if len(f) >= 2 {
			m[string(f[0])] = string(f[1])
		}
	}
	return m
}

// ---------------------------------------------------------------------------------------

type world struct {
	m     *fixture.Module
	root  bool
	pkgs  map[string]*layout.Pkg // by dir
	salt  int
	base  string
	trace []string
	pre   string // directory name prefix (history.Late)
}

func pathOf(dir string) string {
	if dir == "." {
		return mod
	}
	return mod + "/" + dir
}

// phys maps the logical directory of an op (a, b, b/nested, c, .) to the directory on disk.
func (wd *world) phys(dir string) string {
	if dir == "." || dir == "" {
		return dir
	}
	return wd.pre + dir
}

func newWorld(w *core.Worker, name string, root bool, late bool) (*world, error) {
	m, err := fixture.New(w.Scratch, name, mod, "1.24")
	if err != nil {
		return nil, err
	}
	tags := []string{"+gengo:rec"}
	wd := &world{m: m, root: root, pkgs: map[string]*layout.Pkg{}, base: "zz_generated"}
	if late {
		wd.pre = "p"
	}
	pre := wd.pre
	ps := []*layout.Pkg{
		{Dir: pre + "a", Name: "a", Imports: []string{mod + "/" + pre + "b"}, Types: []string{"A1", "A2"}, Tags: tags},
		{Dir: pre + "b", Name: "b", Imports: []string{mod + "/" + pre + "b/nested"}, Types: []string{"B1"}, Tags: tags},
		{Dir: pre + "b/nested", Name: "nested", Types: []string{"N1"}, Tags: tags},
		{Dir: pre + "c", Name: "c", Imports: []string{mod + "/" + pre + "apis/foo/v1", mod + "/" + pre + "apis/bar/v1"}, Types: []string{"C1"}, Tags: tags},
		// two local packages with the same package NAME in different directories: each has its own directory hash
		// (seeded change C08-n: directory hashes memoised by package name)
		{Dir: pre + "apis/foo/v1", Name: "v1", Types: []string{"F1"}, Tags: tags},
		{Dir: pre + "apis/bar/v1", Name: "v1", Types: []string{"G1", "G2"}, Tags: tags},
	}
	if root {
		ps[0].Imports = append(ps[0].Imports, mod)
		ps = append(ps, &layout.Pkg{Dir: ".", Name: "rootpkg", Types: []string{"R1"}, Tags: tags})
	}
	for _, p := range ps {
		wd.pkgs[p.Dir] = p
		p.Write(m)
	}
	return wd, nil
}

func (wd *world) apply(o op) {
	wd.salt++
	dir := wd.phys(o.Pkg)
	f := func(rel string) string { return filepath.Join(wd.m.Root, dir, rel) }
	switch o.Kind {
	case "noop":
	case "edit-src":
		p := wd.pkgs[dir]
		p.Salt = fmt.Sprint(wd.salt)
		p.Write(wd.m)
	case "add-src":
		_ = os.WriteFile(f(fmt.Sprintf("extra%d.go", wd.salt)), []byte(fmt.Sprintf("package %s\n\ntype Extra%d struct{}\n", wd.pkgs[dir].Name, wd.salt)), 0o644)
	case "del-src":
		ents, _ := os.ReadDir(filepath.Join(wd.m.Root, dir))
		for _, e := range ents {
			if strings.HasPrefix(e.Name(), "extra") {
				_ = os.Remove(f(e.Name()))
				return
			}
		}
		// nothing to delete: fall back to an edit so that the op still changes the directory
		p := wd.pkgs[dir]
		p.Salt = fmt.Sprint(wd.salt)
		p.Write(wd.m)
	case "add-nongo":
		_ = os.WriteFile(f(fmt.Sprintf("notes%d.txt", wd.salt)), []byte("n\n"), 0o644)
	case "edit-generated":
		g := f(wd.base + ".rec.go")
		if b, err := os.ReadFile(g); err == nil {
			_ = os.WriteFile(g, append(b, []byte("\n// hand edit\n")...), 0o644)
		} else {
			_ = os.WriteFile(f("handmade.txt"), []byte(fmt.Sprint(wd.salt)), 0o644)
		}
	case "del-generated":
		if err := os.Remove(f(wd.base + ".rec.go")); err != nil {
			_ = os.WriteFile(f("handmade2.txt"), []byte(fmt.Sprint(wd.salt)), 0o644)
		}
	case "make-unhashable":
		_ = os.Symlink("/nonexistent/verif-target", f("dangling.txt"))
	case "repair-unhashable":
		_ = os.Remove(f("dangling.txt"))
	case "del-sum":
		_ = os.Remove(filepath.Join(wd.m.Root, "gengo.sum"))
	case "sum-garbage":
		_ = os.WriteFile(filepath.Join(wd.m.Root, "gengo.sum"), []byte("garbage\x00\n\n  \nonefield\n"), 0o644)
	case "sum-truncate":
		if b, err := os.ReadFile(filepath.Join(wd.m.Root, "gengo.sum")); err == nil && len(b) > 10 {
			_ = os.WriteFile(filepath.Join(wd.m.Root, "gengo.sum"), b[:len(b)/2], 0o644)
		}
	case "sum-swap", "sum-drop-entry", "sum-wrong-hash", "sum-extra-fields", "sum-rename-entry":
		sf := filepath.Join(wd.m.Root, "gengo.sum")
		b, err := os.ReadFile(sf)
		if err != nil {
			return
		}
		lines := strings.Split(strings.TrimRight(string(b), "\n"), "\n")
		if len(lines) < 2 {
			return
		}
		switch o.Kind {
		case "sum-swap":
			a, c := strings.Fields(lines[0]), strings.Fields(lines[1])
			if len(a) == 2 && len(c) == 2 {
				lines[0], lines[1] = a[0]+" "+c[1], c[0]+" "+a[1]
			}
		case "sum-drop-entry":
			lines = lines[1:]
		case "sum-wrong-hash":
			a := strings.Fields(lines[len(lines)-1])
			if len(a) == 2 {
				lines[len(lines)-1] = a[0] + " h1:AAAAAAAAAAAAAAAAAAAAAAAAAAAAAAAAAAAAAAAAAAA="
			}
		case "sum-extra-fields":
			lines[0] = lines[0] + " trailing junk"
		case "sum-rename-entry":
			// the entry of one package now stands under another path (a moved / copied directory, a damaged path):
			// its hash is still in the file, but not FOR that package
			k := wd.salt % len(lines)
			if a := strings.Fields(lines[k]); len(a) == 2 {
				lines[k] = a[0] + "-moved " + a[1]
			}
		}
		_ = os.WriteFile(sf, []byte(strings.Join(lines, "\n")+"\n"), 0o644)
	}
}

type runObs struct {
	Kind     string
	Executed map[string]bool
	Cached   map[string]bool
	Failed   bool
	Err      string
	Changed  int
}

// run executes one gengo run and applies the per-run oracles.
func (wd *world) run(res *core.Result, h history, step int, o op) *runObs {
	args := specgen.Args{Entrypoint: []string{"./" + wd.phys("a"), "./" + wd.phys("c")}, OutputFileBaseName: wd.base, All: true}
	gen := specgen.GenSpec{Name: "rec", Def: specgen.Behav{Mode: "render", Salt: "v1"}}
	switch o.Kind {
	case "run-all-force":
		args.Force = true
	case "run-subset":
		args.Entrypoint = []string{"./" + wd.phys("c")}
	case "run-nonall":
		args.All = false
	case "run-fail":
		gen.Pkg = map[string]specgen.Behav{pathOf(wd.phys(o.Pkg)): {Mode: "error", At: 0, Salt: "v1"}}
	}
	// expected local packages of the run: dependency closure of the entrypoints inside the module
	local := map[string]bool{}
	var visit func(dir string)
	visit = func(dir string) {
		p := pathOf(dir)
		if local[p] {
			return
		}
		local[p] = true
		for _, ip := range wd.pkgs[dir].Imports {
			d := strings.TrimPrefix(strings.TrimPrefix(ip, mod), "/")
			if d == "" {
				d = "."
			}
			visit(d)
		}
	}
	for _, e := range args.Entrypoint {
		visit(strings.TrimPrefix(e, "./"))
	}
	direct := map[string]bool{}
	for _, e := range args.Entrypoint {
		direct[pathOf(strings.TrimPrefix(e, "./"))] = true
	}
	// the model's view of the state at load time
	sumPath := filepath.Join(wd.m.Root, "gengo.sum")
	sumBefore, sumErr := os.ReadFile(sumPath)
	entries := map[string]string{}
	if sumErr == nil {
		entries = parseSum(sumBefore)
	}
	H := map[string][]string{}
	for dir := range wd.pkgs {
		full := filepath.Join(wd.m.Root, dir)
		hs := []string{refHash1(full, "")}
		if dir == "." {
			hs = append(hs, refHash1(full, "gengo.sum"))
		}
		H[pathOf(dir)] = hs
	}
	before := wd.m.Snapshot()
	out := specgen.RunInProcess(wd.m.Root, args, []specgen.GenSpec{gen})
	after := wd.m.Snapshot()
	obs := &runObs{Kind: o.Kind, Executed: map[string]bool{}, Cached: map[string]bool{}, Failed: out.Failed, Err: out.Err}
	news := map[string]bool{}
	for _, e := range out.Events {
		if e.Kind == "hook" && e.Name == "pkg:start" {
			obs.Executed[e.Detail] = true
		}
		if e.Kind == "hook" && e.Name == "pkg:cached" {
			obs.Cached[e.Detail] = true
		}
		if e.Kind == "new" {
			news[e.Pkg] = true
		}
	}
	cr, ch, de := fixture.Diff(before, after)
	obs.Changed = len(cr) + len(ch) + len(de)
	res.Inc("runs")
	res.Inc("runs_" + o.Kind)
	res.Count("observed_cache_skips", int64(len(obs.Cached)))
	fail := func(oracle, key, format string, a ...any) {
		res.Fail(oracle, key, fmt.Sprintf("step %d (%s) of history [%s]: ", step, o, h)+fmt.Sprintf(format, a...), h)
	}
	if out.Panic != "" {
		fail("panic", o.Kind, "Execute panicked: %s", clip(out.Panic, 1200))
		return obs
	}
	if o.Kind == "run-fail" {
		// the failing package may be cached; then the run succeeds
		if !out.Failed && obs.Executed[pathOf(wd.phys(o.Pkg))] {
			fail("fail-run", o.Kind, "the generator returned an error in %s but Execute succeeded", o.Pkg)
		}
	} else if out.Failed {
		fail("execute", o.Kind, "Execute failed: %s", clip(out.Err, 600))
		return obs
	}
	// hook vs generator log
	for p := range obs.Executed {
		if !news[p] {
			fail("hook-vs-generator", o.Kind, "package %s started according to the hook but no generator instance was created for it", p)
		}
	}
	if !args.All {
		for p := range local {
			if direct[p] && !obs.Executed[p] {
				fail("nonall-direct", o.Kind, "non-All run did not execute the directly requested package %s", p)
			}
			if !direct[p] && (obs.Executed[p] || obs.Cached[p]) {
				fail("nonall-indirect", o.Kind, "non-All run touched the indirect package %s", p)
			}
		}
		if string(sumBefore) != string(mustRead(sumPath)) || (sumErr != nil) != !exists(sumPath) {
			fail("sum-unchanged", o.Kind, "gengo.sum changed in a non-All run")
		}
		return obs
	}
	// every local package executed or cached (a failing run stops at the failure)
	if !out.Failed {
		for p := range local {
			if !obs.Executed[p] && !obs.Cached[p] {
				fail("completeness", o.Kind, "local package %s was neither executed nor reported cached", p)
			}
		}
	}
	for p := range obs.Executed {
		if !local[p] {
			fail("completeness", o.Kind, "package %s was executed but is not a local package of this run", p)
		}
	}
	// cached(p) => ...
	for p := range obs.Cached {
		res.Inc("cache_skip_implications_checked")
		if obs.Executed[p] {
			fail("cached-and-executed", o.Kind, "package %s both cached and executed", p)
		}
		if args.Force {
			fail("cache-soundness", "force", "package %s was skipped as cached although Force is set", p)
			continue
		}
		if sumErr != nil {
			fail("cache-soundness", "no-sum-file", "package %s was skipped as cached although gengo.sum did not exist / was unreadable", p)
			continue
		}
		e, ok := entries[p]
		if !ok {
			fail("cache-soundness", "no-entry", "package %s was skipped as cached although gengo.sum has no entry for it (entries: %v)", p, entries)
			continue
		}
		match := false
		for _, hv := range H[p] {
			if hv == "" {
				fail("cache-soundness", "unhashable", "package %s was skipped as cached although its directory cannot be hashed (dangling symlink)", p)
			}
			if hv != "" && hv == e {
				match = true
			}
		}
		if !match {
			fail("cache-soundness", "hash-mismatch", "package %s was skipped as cached: recorded %s, directory hash at load %v", p, e, H[p])
		}
	}
	// gengo.sum after the run
	sumAfter, errAfter := os.ReadFile(sumPath)
	if out.Failed {
		if (sumErr != nil) != (errAfter != nil) || string(sumBefore) != string(sumAfter) {
			fail("sum-unchanged", "failed-run", "gengo.sum was rewritten by a run that failed")
		}
		return obs
	}
	if errAfter != nil {
		fail("sum-written", o.Kind, "no gengo.sum after a successful All run")
		return obs
	}
	var wantPaths []string
	for p := range local {
		wantPaths = append(wantPaths, p)
	}
	sort.Strings(wantPaths)
	lines := strings.Split(strings.TrimSuffix(string(sumAfter), "\n"), "\n")
	okFormat := len(lines) == len(wantPaths) && strings.HasSuffix(string(sumAfter), "\n")
	if okFormat {
		for i, p := range wantPaths {
			f := strings.Split(lines[i], " ")
			if len(f) != 2 || f[0] != p {
				okFormat = false
				break
			}
			m := false
			for _, hv := range H[p] {
				if f[1] == hv {
					m = true
				}
			}
			if !m {
				// an unhashable directory has no defined hash: any value that does not claim a valid state is fine, but it must not be trusted later (checked above)
				if len(H[p]) > 0 && H[p][0] == "" {
					continue
				}
				fail("sum-content", "hash", "gengo.sum records %s for %s, the directory hash at load was %v", f[1], p, H[p])
			}
		}
	}
	if !okFormat {
		fail("sum-content", "format", "gengo.sum after a successful All run is not one sorted `path hash` line per local package %v:\n%s", wantPaths, clip(string(sumAfter), 800))
	}
	// read-back
	if sf, err := sumfile.Load(wd.m.Root); err != nil {
		fail("sum-readback", o.Kind, "sumfile.Load failed on the file just written: %v", err)
	} else {
		got := parseSum(sumAfter)
		for p, v := range got {
			if sf.Sum(p) != v {
				fail("sum-readback", o.Kind, "sumfile.Load gives %q for %s, the file says %q", sf.Sum(p), p, v)
			}
		}
		if len(sf.Data) != len(got) {
			fail("sum-readback", o.Kind, "sumfile.Load returned %d entries, the file has %d", len(sf.Data), len(got))
		}
	}
	res.Inc("sum_files_validated")
	return obs
}

func mustRead(p string) []byte { b, _ := os.ReadFile(p); return b }
func exists(p string) bool     { _, err := os.Lstat(p); return err == nil }

func clip(s string, n int) string {
	if len(s) <= n {
		return s
	}
	return s[:n] + "…"
}

// converge: at most 3 further All runs without edits must reach a run that executes nothing and changes nothing.
func (wd *world) converge(res *core.Result, h history) {
	for i := 0; i < 4; i++ {
		obs := wd.run(res, h, 1000+i, op{Kind: "run-all"})
		if obs.Failed {
			return
		}
		if len(obs.Executed) == 0 && obs.Changed == 0 {
			res.Inc("convergence_reached")
			res.Count("convergence_runs_needed", int64(i+1))
			return
		}
	}
	unhashable := false
	for dir := range wd.pkgs {
		if exists(filepath.Join(wd.m.Root, dir, "dangling.txt")) {
			unhashable = true
		}
	}
	if unhashable {
		// an unhashable package can never be trusted as cached: no convergence is expected while it stays unhashable
		res.Inc("convergence_skipped_unhashable")
		return
	}
	res.Fail("convergence", fmt.Sprintf("root=%v", wd.root), fmt.Sprintf("after history [%s] four further All runs without edits still regenerate or change files", h), h)
}

func (p *prop) runHistory(c core.Case, w *core.Worker, res *core.Result, h history, idx int) {
	wd, err := newWorld(w, fmt.Sprintf("c08-%d-%d", c.ID, idx), h.Root, h.Late)
	if err != nil {
		res.Inconclusive = append(res.Inconclusive, err.Error())
		return
	}
	defer wd.m.Remove()
	switch h.Start {
	case "once":
		wd.run(res, h, -1, op{Kind: "run-all"})
	case "converged":
		for i := 0; i < 3; i++ {
			wd.run(res, h, -3+i, op{Kind: "run-all"})
		}
	}
	edited := false
	var prefix []string
	for i, o := range h.Ops {
		prefix = append(prefix, o.String())
		if strings.HasPrefix(o.Kind, "run-") {
			obs := wd.run(res, h, i, o)
			res.Evals++
			if edited || len(obs.Cached) > 0 {
				res.NonTrivial(fmt.Sprintf("%v|%s|%s", h.Root, h.Start, strings.Join(prefix, ";")))
			}
			edited = false
		} else {
			wd.apply(o)
			if o.Kind != "noop" {
				edited = true
			}
		}
	}
	wd.converge(res, h)
}

func randHistory(r *rand.Rand, maxLen int) history {
	h := history{Root: r.Intn(2) == 0, Start: []string{"fresh", "once", "converged"}[r.Intn(3)], Late: r.Intn(3) == 0}
	n := 6 + r.Intn(maxLen-5)
	for i := 0; i < n; i++ {
		switch r.Intn(5) {
		case 0, 1:
			d := pkgDirs(h.Root)
			h.Ops = append(h.Ops, op{Kind: editKinds[r.Intn(len(editKinds))], Pkg: d[r.Intn(len(d))]})
		case 2:
			h.Ops = append(h.Ops, op{Kind: sumKinds[r.Intn(len(sumKinds))]})
		default:
			rk := runKinds[r.Intn(len(runKinds))]
			if r.Intn(2) == 0 {
				rk = "run-all"
			}
			o := op{Kind: rk}
			if rk == "run-fail" {
				d := pkgDirs(h.Root)
				o.Pkg = d[r.Intn(len(d))]
			}
			h.Ops = append(h.Ops, o)
		}
	}
	h.Ops = append(h.Ops, op{Kind: "run-all"})
	return h
}

func (p *prop) Run(c core.Case, w *core.Worker) core.Result {
	res := core.Result{CaseID: c.ID}
	var pa params
	c.Decode(&pa)
	switch c.Kind {
	case "enumerated":
		hs := enumerate(c.Tier)
		for i, h := range hs {
			if i%pa.Of != pa.Shard {
				continue
			}
			p.runHistory(c, w, &res, h, i)
			if i == pa.Shard {
				res.Sample(h.String(), 1)
			}
		}
		if pa.Shard == 0 {
			res.Count("enumerated_histories", int64(len(hs)))
		}
	case "random":
		r := rand.New(rand.NewSource(c.Seed))
		for i := 0; i < pa.N; i++ {
			h := randHistory(r, pa.MaxLen)
			p.runHistory(c, w, &res, h, i)
			if i == 0 {
				res.Sample(h.String(), 1)
			}
		}
	}
	return res
}
