// Package c06: GenerateType is called exactly for the enabled package-level named types; Defer
// callbacks run exactly once, after the last GenerateType and before the file is written.
package c06

import (
	"fmt"
	"go/types"
	"hash/fnv"
	"math/rand"
	"os"
	"path/filepath"
	"sort"
	"strings"

	"github.com/octohelm/gengo/pkg/gengo"
	"github.com/octohelm/gengo/pkg/gengo/snippet"

	"verif/internal/core"
	"verif/internal/fixture"
	"verif/internal/pipeline"
	"verif/internal/synth"
)

func init() { core.Register(&prop{}) }

type prop struct{}

func (*prop) ID() string    { return "C06" }
func (*prop) Level() string { return "exploration" }
func (*prop) Rule() string {
	return "seeded synthetic modules of 3 packages (defined structs / scalars / funcs / interfaces / maps / slices, aliases incl. aliases of foreign types, generics, function-local types with fresh and clashing names, type parameters shadowing package types, grouped specs, several files, unexported types) are generated with tags gengo:<g> in {absent, '', true, false, x and look-alikes of false: 0, f, F, False, FALSE, no, off, falsex ...} and sub-tags gengo:<g>:<sub> placed at global (Globals), package-doc and declaration level in all combinations, " +
		"decl-level tags also as detached comments and as the previous line's trailing comment (both must have no effect); generators named a, ab, a:b, deep, deepcopy (scripted, recording) run together, with and without GenerateAliasType, registering 0-3 Defer callbacks per type and answering about a third of the types with ErrSkip / ErrIgnore / a wrapped ErrSkip (dispatch must go on). The real Execute runs in the worker; the ordered event log (generator callbacks + verif hook points) is compared with an independent model computed from the source the harness wrote: " +
		"effective tags = declaration over package over global per key; enabled iff exact key present ? value != false : any key with prefix gengo:<g>: ; expected multiset of calls = one GenerateType per enabled package-scope defined type, one GenerateAliasType per enabled alias when implemented - observed multiset must be equal, every call must concern a package-scope type of the package being processed; every deferred callback runs exactly once, after the last GenerateType of its (package, generator), before the first write event of that package, sees the output file still unchanged, and its marker is in the final file. " +
		"Non-trivial = a type whose three tag levels do not all agree for some generator, or a non-dispatchable declaration (local type, type parameter, alias, decoy tag); distinct by hash of (kind, per-generator tag placement vector, decoys)."
}
func (*prop) Assumptions() []string {
	return []string{
		"repeated same-key tags at one level and two files with conflicting package-doc tags are not generated (precedence among them is unspecified); the doc of a parenthesised type group carries no tags",
		"nested Defer registered from inside a deferred callback is not generated",
		"the model is computed from what the harness wrote, not from go/ast",
	}
}
func (*prop) MinDistinct(tier string) int64 {
	if tier == "thorough" {
		return 3000
	}
	return 300
}

type params struct {
	N int `json:"n"`
}

func (*prop) Cases(seed int64, tier string) []core.Case {
	nc, n := 16, 8
	if tier == "thorough" {
		nc, n = 64, 64
	}
	var cs []core.Case
	for i := 0; i < nc; i++ {
		cs = append(cs, core.MkCase("modules", params{n}))
	}
	return cs
}

var genNames = []string{"a", "ab", "a:b", "deep", "deepcopy"}
var tagKeys = []string{"gengo:a", "gengo:ab", "gengo:a:b", "gengo:a:b:c", "gengo:a:x", "gengo:deep", "gengo:deepcopy", "gengo:deepcopy:interfaces", "gengo:abc", "other:a"}
var tagValues = []string{"", "true", "false", "x", "false", "0", "f", "F", "False", "FALSE", "no", "off", "falsex", "1", "t", "false", "TRUE", "nil"}

func merge(levels ...map[string][]string) map[string][]string {
	out := map[string][]string{}
	for _, l := range levels {
		for k, v := range l {
			out[k] = v
		}
	}
	return out
}

// enabled is the statement's rule.
func enabled(gen string, tags map[string][]string) bool {
	exact := "gengo:" + gen
	if v, ok := tags[exact]; ok {
		return strings.Join(v, "") != "false"
	}
	for k := range tags {
		if strings.HasPrefix(k, exact+":") {
			return true
		}
	}
	return false
}

func h(parts ...string) uint32 {
	x := fnv.New32a()
	for _, p := range parts {
		x.Write([]byte(p))
		x.Write([]byte{0})
	}
	return x.Sum32()
}

func sanitize(s string) string { return strings.NewReplacer(":", "_", "-", "_").Replace(s) }

func (p *prop) runModule(c core.Case, w *core.Worker, res *core.Result, r *rand.Rand, idx int) {
	m, err := fixture.New(w.Scratch, fmt.Sprintf("c06-%d-%d", c.ID, idx), "example.com/c06", "1.24")
	if err != nil {
		res.Inconclusive = append(res.Inconclusive, err.Error())
		return
	}
	defer m.Remove()
	o := synth.Opts{NTypes: 8 + r.Intn(8), Methods: r.Intn(2) == 0, Clash: true, Docs: true, TagKeys: tagKeys, TagValues: tagValues, PkgTagProb: 25}
	pc := synth.Generate(r, "pc", "z/pc", "example.com/c06/z/pc", o)
	ob := o
	ob.Imports = []string{pc.Path}
	pb := synth.Generate(r, "pb", "pb", "example.com/c06/pb", ob)
	oa := o
	oa.Imports = []string{pb.Path, pc.Path}
	pa := synth.Generate(r, "pa", "pa", "example.com/c06/pa", oa)
	pkgs := []*synth.Package{pa, pb, pc}
	for _, sp := range pkgs {
		for fn, s := range sp.Files {
			m.MustWrite(filepath.Join(sp.Dir, fn), s)
		}
	}
	globals := map[string][]string{}
	for _, k := range tagKeys {
		if r.Intn(6) == 0 {
			globals[k] = []string{tagValues[r.Intn(len(tagValues))]}
		}
	}
	// some pre-existing output so that "file bytes unchanged during the callbacks" is observable
	pre := map[string]string{}
	for _, sp := range pkgs {
		if r.Intn(2) == 0 {
			fn := filepath.Join(sp.Dir, "zz_generated.a.go")
			body := "package " + sp.Name + "\n\n// previous output\n"
			m.MustWrite(fn, body)
			pre[filepath.Join(m.Root, fn)] = body
		}
	}

	deferSeen := map[string]int{}
	collectOnlyTypeCalls := 0
	docLookupsOnForeignTwins := 0
	type deferInfo struct{ pkg, gen, id string }
	var registered []deferInfo
	var deferFileViolations []string
	behaviours := make([]*pipeline.Behaviour, 0, len(genNames))
	for gi, gn := range genNames {
		gn := gn
		b := &pipeline.Behaviour{Name: gn}
		b.OnType = func(c gengo.Context, named *types.Named, inst *pipeline.Instance) error {
			pkg := c.Package("").Pkg().Path()
			tn := named.Obj().Name()
			// generator "deep" is of the collect-then-render kind: GenerateType only registers callbacks, everything it
			// renders is rendered by them (seeded change C06-m: callbacks skipped when nothing was rendered before them)
			if gn != "deep" {
				c.RenderT("// @g saw @n\nconst _ = \"@g|@n\"\n\n", snippet.Arg("g", snippet.Block(gn)), snippet.Arg("n", snippet.Block(tn)))
			} else {
				collectOnlyTypeCalls++
			}
			// like real generators that look at the types of fields: ask for the documentation of SAME-NAMED types of
			// the packages this one imports (their tags differ) and of the type's own methods - looking at somebody
			// else's declaration must not influence which of this package's types are dispatched
			for ip, q := range c.Package("").Imports() {
				if q == nil || !strings.HasPrefix(ip, "example.com/c06/") {
					continue
				}
				for name, t := range q.Types() {
					if c.Package("").Type(name) != nil {
						core.Guard(func() { c.Doc(t) })
						docLookupsOnForeignTwins++
					}
				}
			}
			nd := int(h(gn, tn, "defers") % 4)
			for k := 0; k < nd; k++ {
				id := fmt.Sprintf("%s/%s/%s/%d", pkg, gn, tn, k)
				registered = append(registered, deferInfo{pkg, gn, id})
				outFile := filepath.Join(c.Package("").SourceDir(), "zz_generated."+gn+".go")
				c.Defer(func(c gengo.Context) error {
					deferSeen[id]++
					pipeline.Current.Add(pipeline.Event{Kind: "defer-run", Pkg: pkg, Gen: gn, Name: id})
					// the output file must not have been touched yet
					b, err := os.ReadFile(outFile)
					want, had := pre[outFile]
					if had && (err != nil || string(b) != want) {
						deferFileViolations = append(deferFileViolations, fmt.Sprintf("%s: previous output already modified while callback %s ran", outFile, id))
					}
					if !had && err == nil {
						deferFileViolations = append(deferFileViolations, fmt.Sprintf("%s: output already exists while callback %s ran", outFile, id))
					}
					c.RenderT("// deferred @id\n", snippet.Arg("id", snippet.Block(id)))
					return nil
				})
			}
			// some types are answered with ErrSkip / ErrIgnore (also wrapped): the remaining types of the package must
			// still be dispatched and the callbacks registered so far must still run
			switch h(gn, tn, "sentinel") % 9 {
			case 0:
				return gengo.ErrSkip
			case 1:
				return gengo.ErrIgnore
			case 2:
				return fmt.Errorf("wrapped: %w", gengo.ErrSkip)
			}
			return nil
		}
		if gi%2 == 0 {
			b.OnAlias = func(c gengo.Context, a *types.Alias, inst *pipeline.Instance) error {
				c.RenderT("// @g saw alias @n\n", snippet.Arg("g", snippet.Block(gn)), snippet.Arg("n", snippet.Block(a.Obj().Name())))
				return nil
			}
		}
		behaviours = append(behaviours, b)
	}
	var gens []gengo.Generator
	for _, b := range behaviours {
		gens = append(gens, pipeline.New(b))
	}
	all := r.Intn(4) != 0
	entry := []string{"./pa"}
	args := &gengo.GeneratorArgs{Globals: globals, Entrypoint: entry, OutputFileBaseName: "zz_generated", All: all}
	out := pipeline.Execute(m.Root, args, gens...)
	if out.Failed() {
		res.Fail("execute", "execute-error", fmt.Sprintf("Execute failed on a synthetic module (all=%v): %s\n%s", all, out.ErrString(), clip(out.Stack, 1500)), nil)
		return
	}
	res.Inc("gengo_runs")

	processed := pkgs
	if !all {
		processed = pkgs[:1]
	}
	procSet := map[string]bool{}
	for _, sp := range processed {
		procSet[sp.Path] = true
	}
	// ---- expected vs observed call multisets
	type key struct{ pkg, gen, kind, name string }
	want := map[key]int{}
	for _, sp := range processed {
		for _, t := range sp.Types {
			eff := merge(globals, sp.PkgTags, t.DeclTags)
			for gi, gn := range genNames {
				en := enabled(gn, eff)
				res.Evals++
				// non-triviality: placement vector over the three levels for this generator
				vec := placement(gn, globals) + "/" + placement(gn, sp.PkgTags) + "/" + placement(gn, t.DeclTags)
				if strings.Count(vec, "-") < 3 || t.IsAlias || len(t.Decoys) > 0 {
					res.NonTrivial(fmt.Sprintf("%s|%s|%v|%s|%d", t.Kind, vec, t.IsAlias, strings.Join(decoyKinds(t.Decoys), ","), gi%2))
				}
				if !en {
					continue
				}
				if t.IsAlias {
					if gi%2 == 0 {
						want[key{sp.Path, gn, "alias", t.Name}]++
					}
				} else {
					want[key{sp.Path, gn, "type", t.Name}]++
				}
			}
		}
	}
	got := map[key]int{}
	for _, e := range out.Events {
		switch e.Kind {
		case "type":
			got[key{e.Pkg, e.Gen, "type", e.Name}]++
			parts := strings.Split(e.Detail, "|")
			if parts[0] != e.Pkg {
				res.Fail("foreign-type", "GenerateType", fmt.Sprintf("while processing %s generator %s received type %s of package %s", e.Pkg, e.Gen, e.Name, parts[0]), nil)
			}
			if parts[2] != "pkgscope" {
				res.Fail("not-package-scope", "GenerateType", fmt.Sprintf("generator %s received %s.%s which is not a package-scope type (function-local type or type parameter)", e.Gen, e.Pkg, e.Name), nil)
			}
			if !procSet[e.Pkg] {
				res.Fail("unselected-package", "GenerateType", fmt.Sprintf("generator %s was invoked for package %s which is not selected (All=%v)", e.Gen, e.Pkg, all), nil)
			}
		case "alias":
			got[key{e.Pkg, e.Gen, "alias", e.Name}]++
		case "prototype-used":
			res.Fail("prototype-used", "GenerateType", fmt.Sprintf("the registered prototype of %s was used directly for package %s", e.Gen, e.Pkg), nil)
		}
	}
	describe := func(k key) string {
		for _, sp := range pkgs {
			if sp.Path != k.pkg {
				continue
			}
			if t := sp.Type(k.name); t != nil {
				return fmt.Sprintf("%s %s (kind %s; globals %v, package tags %v, declaration tags %v, decoys %v)", k.kind, k.name, t.Kind, globals, sp.PkgTags, t.DeclTags, t.Decoys)
			}
			return fmt.Sprintf("%s %s (not a package-level type the harness wrote: local types %v, type params %v)", k.kind, k.name, sp.LocalTyps, sp.TypeParms)
		}
		return k.name
	}
	var keys []key
	for k := range want {
		keys = append(keys, k)
	}
	for k := range got {
		if _, ok := want[k]; !ok {
			keys = append(keys, k)
		}
	}
	sort.Slice(keys, func(i, j int) bool { return fmt.Sprint(keys[i]) < fmt.Sprint(keys[j]) })
	for _, k := range keys {
		res.Inc("dispatch_decisions_compared")
		if want[k] != got[k] {
			oracle := "missing-call"
			if got[k] > want[k] {
				oracle = "unexpected-call"
				if want[k] > 0 {
					oracle = "duplicate-call"
				}
			}
			res.Fail(oracle, failKey(k.gen, k.kind, describeShape(pkgs, k.pkg, k.name, k.gen, globals)), fmt.Sprintf("package %s generator %q: expected %d call(s), observed %d for %s", k.pkg, k.gen, want[k], got[k], describe(k)), map[string]any{"pkg": k.pkg, "gen": k.gen, "name": k.name})
		}
	}
	// ---- deferred callbacks
	lastType := map[string]int{}
	firstWrite := map[string]int{}
	curPkg := ""
	for i, e := range out.Events {
		switch {
		case e.Kind == "type" || e.Kind == "alias":
			lastType[e.Pkg+"|"+e.Gen] = i
		case e.Kind == "hook" && e.Name == "pkg:start":
			curPkg = e.Detail
		case e.Kind == "hook" && e.Name == "write:before":
			if _, ok := firstWrite[curPkg]; !ok {
				firstWrite[curPkg] = i
			}
		}
	}
	for _, d := range registered {
		res.Inc("deferred_callbacks_checked")
		if d.gen == "deep" {
			res.Inc("deferred_callbacks_of_the_collect_only_generator")
		}
		if deferSeen[d.id] != 1 {
			res.Fail("defer-once", "defer", fmt.Sprintf("deferred callback %s ran %d times", d.id, deferSeen[d.id]), nil)
		}
	}
	for i, e := range out.Events {
		if e.Kind != "defer-run" {
			continue
		}
		if lt, ok := lastType[e.Pkg+"|"+e.Gen]; ok && i < lt {
			res.Fail("defer-order", "defer-before-last-type", fmt.Sprintf("deferred callback %s ran before the last GenerateType of (%s, %s)", e.Name, e.Pkg, e.Gen), nil)
		}
		if fw, ok := firstWrite[e.Pkg]; ok && i > fw {
			res.Fail("defer-order", "defer-after-write", fmt.Sprintf("deferred callback %s ran after a file of package %s was written", e.Name, e.Pkg), nil)
		}
	}
	res.Count("doc_lookups_on_same_named_types_of_imported_packages", int64(docLookupsOnForeignTwins))
	for _, v := range deferFileViolations {
		res.Fail("defer-file-untouched", "defer", v, nil)
	}
	for _, d := range registered {
		for _, sp := range pkgs {
			if sp.Path == d.pkg {
				b, _ := m.Read(filepath.Join(sp.Dir, "zz_generated."+d.gen+".go"))
				if !strings.Contains(b, "// deferred "+d.id+"\n") {
					res.Fail("defer-marker", "defer", fmt.Sprintf("what deferred callback %s rendered is not in the written file", d.id), nil)
				}
			}
		}
	}
	if idx == 0 {
		t := pa.Types[len(pa.Types)/2]
		res.Sample(map[string]any{"globals": globals, "package_tags": pa.PkgTags, "type": t.Name, "kind": t.Kind, "decl_tags": t.DeclTags, "decoys": t.Decoys, "all": all, "events": len(out.Events)}, 1)
	}
}

func decoyKinds(ds []string) []string {
	var out []string
	for _, d := range ds {
		out = append(out, strings.SplitN(d, ":", 2)[0])
	}
	return out
}

// placement: value of the exact key and whether a sub-tag exists at one level, for generator gen.
func placement(gen string, tags map[string][]string) string {
	exact := "gengo:" + gen
	s := "-"
	if v, ok := tags[exact]; ok {
		s = "=" + strings.Join(v, ",")
	}
	for k := range tags {
		if strings.HasPrefix(k, exact+":") {
			return s + "+sub"
		}
	}
	return s
}

func describeShape(pkgs []*synth.Package, pkg, name, gen string, globals map[string][]string) string {
	for _, sp := range pkgs {
		if sp.Path == pkg {
			if t := sp.Type(name); t != nil {
				return fmt.Sprintf("%s %s/%s/%s decoys=%v", t.Kind, placement(gen, globals), placement(gen, sp.PkgTags), placement(gen, t.DeclTags), decoyKinds(t.Decoys))
			}
			return "not-a-package-level-type"
		}
	}
	return "?"
}

func failKey(gen, kind, shape string) string { return fmt.Sprintf("%s %s %s", gen, kind, shape) }

func clip(s string, n int) string {
	if len(s) <= n {
		return s
	}
	return s[:n] + "…"
}

func (p *prop) Run(c core.Case, w *core.Worker) core.Result {
	res := core.Result{CaseID: c.ID}
	var pa params
	c.Decode(&pa)
	r := rand.New(rand.NewSource(c.Seed))
	for i := 0; i < pa.N; i++ {
		p.runModule(c, w, &res, r, i)
	}
	return res
}
