// Package c02: a failed generation never damages existing output or marks work as done (fault enumeration).
package c02

import (
	"fmt"
	"go/parser"
	"go/token"
	"os"
	"path/filepath"
	"regexp"
	"sort"
	"strings"

	"verif/internal/core"
	"verif/internal/fixture"
	"verif/internal/layout"
	"verif/internal/specgen"
)

func init() { core.Register(&prop{}) }

type prop struct{}

func (*prop) ID() string    { return "C02" }
func (*prop) Level() string { return "fault_enumeration" }
func (*prop) Rule() string {
	return "scenarios: a module with packages a -> b -> b/nested, c (optionally a package in the module root), two generators ('ok' and the faulty 'bad', in either order), state S0 = result of a successful All run (outputs + gengo.sum), then source edits so that every package is due. " +
		"For each scenario EVERY fault point is enumerated: (a) error returned from the i-th GenerateType, all i; (b) error from the j-th deferred callback, all j; (c) unparseable rendering at each package; (d) error from GenerateAliasType; (e) wrapped ErrSkip / ErrIgnore (must be swallowed) vs an error whose text is 'skip' (must not); (f) destination not writable (output path is a directory); a panic inside GenerateType; " +
		"(g) process death: a child process SIGKILLs itself inside the i-th GenerateType / j-th callback and, through the verif hook, at the n-th hit of every internal point (package start/done, before each write, before open, after open = file truncated, after format, before each stale-file removal, before gengo.sum is saved), all n. " +
		"Oracles: a non-nil error naming generator and package (a, b, d) or a file:line:col position inside the would-be output file (c); the failing (package, generator) file byte-identical or still absent; gengo.sum byte-identical (or still absent); no path outside <pkgdir>/<base>.* of started packages changed; changed .go files still parse; " +
		"after (g): gengo.sum byte-identical, and in the follow-up run no package is skipped as cached unless its recorded sum equals its directory hash; for crash points outside a file write two follow-up runs reach exactly the outputs and gengo.sum of uninterrupted runs. " +
		"Exhaustive over fault points within each scenario, sampled over scenarios. Non-trivial = every fault point (all happen after S0 with previous outputs present); distinct by (scenario, fault point)."
}
func (*prop) Assumptions() []string {
	return []string{
		"process death is SIGKILL of the gengo process itself at a hook point / inside a generator callback; power-loss semantics of the file system (unsynced data) are not modelled",
		"for (f) only 'an error is returned' is required of the message",
		"a crash between truncating and writing an output file may leave that file empty: only gengo.sum integrity and regeneration are required there, not the uninterrupted-run tree",
	}
}
func (*prop) MinDistinct(tier string) int64 {
	if tier == "thorough" {
		return 1500
	}
	return 150
}
func (*prop) Exhaustive(tier string) bool { return false }

const mod = "example.com/c02"
const base = "zz_generated"

type scenario struct {
	ID       int  `json:"id"`
	Root     bool `json:"root"`
	All      bool `json:"all"`
	BadFirst bool `json:"bad_first"`
	Stale    bool `json:"stale"`
	NTypes   int  `json:"ntypes"`
}

type fault struct {
	Kind string `json:"kind"` // type-error defer-error bad-syntax alias-error wrapped-skip wrapped-ignore skip-text-error unwritable panic kill-type kill-defer kill-hook
	Pkg  string `json:"pkg,omitempty"`
	At   int    `json:"at,omitempty"`
	// kill-hook
	Point string `json:"point,omitempty"`
	Nth   int    `json:"nth,omitempty"`
	// Others: what the faulty generator returns for its OTHER types (type-error / bad-syntax): "" nil, "ignore"
	// ErrIgnore, "skip" ErrSkip - a sentinel from one type must not hide the failure of another
	Others string `json:"others,omitempty"`
}

func (f fault) String() string {
	if f.Kind == "kill-hook" {
		return fmt.Sprintf("kill at %s #%d", f.Point, f.Nth)
	}
	if f.Others != "" {
		return fmt.Sprintf("%s in %s at %d (other types: %s)", f.Kind, f.Pkg, f.At, f.Others)
	}
	return fmt.Sprintf("%s in %s at %d", f.Kind, f.Pkg, f.At)
}

type params struct {
	Sc     scenario `json:"sc"`
	Faults []fault  `json:"faults"`
}

func scenarios(tier string) []scenario {
	var out []scenario
	n := 3
	if tier == "thorough" {
		n = 64
	}
	for i := 0; i < n; i++ {
		out = append(out, scenario{ID: i, Root: i%3 == 1, All: i%5 != 4, BadFirst: i%2 == 0, Stale: i%4 != 3, NTypes: 1 + i%3})
	}
	return out
}

func pkgsOf(sc scenario) []*layout.Pkg {
	tags := []string{"+gengo:ok", "+gengo:bad", "+gengo:gone"}
	mk := func(n int, prefix string) []string {
		var ts []string
		for i := 0; i < n; i++ {
			ts = append(ts, fmt.Sprintf("%s%d", prefix, i))
		}
		return ts
	}
	ps := []*layout.Pkg{
		{Dir: "a", Name: "a", Imports: []string{mod + "/b"}, Types: mk(sc.NTypes+1, "A"), Aliases: []string{"AA"}, Tags: tags},
		{Dir: "b", Name: "b", Imports: []string{mod + "/b/nested"}, Types: mk(sc.NTypes, "B"), Aliases: []string{"BA"}, Tags: tags},
		{Dir: "b/nested", Name: "nested", Types: mk(sc.NTypes, "N"), Tags: tags},
		{Dir: "c", Name: "c", Types: mk(sc.NTypes, "C"), Aliases: []string{"CA"}, Tags: tags},
	}
	if sc.Root {
		ps[0].Imports = append(ps[0].Imports, mod)
		ps = append(ps, &layout.Pkg{Dir: ".", Name: "rootpkg", Types: mk(sc.NTypes, "R"), Tags: tags})
	}
	return ps
}

func pathOf(dir string) string {
	if dir == "." {
		return mod
	}
	return mod + "/" + dir
}

// faultPoints enumerates every fault point of a scenario.
func faultPoints(sc scenario) []fault {
	var fs []fault
	ps := pkgsOf(sc)
	for _, p := range ps {
		nt := len(p.Types) + 1 // + Anchor
		for i := 0; i < nt; i++ {
			fs = append(fs, fault{Kind: "type-error", Pkg: p.Dir, At: i})
			fs = append(fs, fault{Kind: "defer-error", Pkg: p.Dir, At: i})
			fs = append(fs, fault{Kind: "kill-type", Pkg: p.Dir, At: i})
			fs = append(fs, fault{Kind: "kill-defer", Pkg: p.Dir, At: i})
		}
		fs = append(fs, fault{Kind: "bad-syntax", Pkg: p.Dir, At: 0}, fault{Kind: "bad-syntax", Pkg: p.Dir, At: nt - 1})
		fs = append(fs, fault{Kind: "bad-syntax", Pkg: p.Dir, At: nt - 1, Others: "tail"})
		// the error comes before the generator has rendered or deferred anything for the package
		fs = append(fs, fault{Kind: "type-error", Pkg: p.Dir, At: 0, Others: "early"}, fault{Kind: "type-error", Pkg: p.Dir, At: nt - 1, Others: "early"})
		for _, oth := range []string{"ignore", "skip"} {
			fs = append(fs, fault{Kind: "bad-syntax", Pkg: p.Dir, At: 0, Others: oth}, fault{Kind: "bad-syntax", Pkg: p.Dir, At: nt - 1, Others: oth},
				fault{Kind: "type-error", Pkg: p.Dir, At: 0, Others: oth}, fault{Kind: "type-error", Pkg: p.Dir, At: nt - 1, Others: oth})
		}
		fs = append(fs, fault{Kind: "skip-text-error", Pkg: p.Dir, At: 0}, fault{Kind: "wrapped-skip", Pkg: p.Dir}, fault{Kind: "wrapped-ignore", Pkg: p.Dir})
		fs = append(fs, fault{Kind: "unwritable", Pkg: p.Dir}, fault{Kind: "panic", Pkg: p.Dir, At: nt - 1})
		if len(p.Aliases) > 0 {
			fs = append(fs, fault{Kind: "alias-error", Pkg: p.Dir})
		}
	}
	np := len(ps)
	if !sc.All {
		np = 2 // direct packages a, c
	}
	hook := func(point string, n int) {
		for i := 1; i <= n; i++ {
			fs = append(fs, fault{Kind: "kill-hook", Point: point, Nth: i})
		}
	}
	hook("pkg:start", np)
	hook("pkg:done", np)
	hook("write:before", 2*np)
	hook("write:before-open", 2*np)
	hook("write:after-open", 2*np)
	hook("write:after-format", 2*np)
	if sc.Stale {
		hook("remove:before", np)
	}
	if sc.All {
		hook("sum:before-save", 1)
	}
	return fs
}

func (*prop) Cases(seed int64, tier string) []core.Case {
	var cs []core.Case
	chunk := 10
	for _, sc := range scenarios(tier) {
		fs := faultPoints(sc)
		for i := 0; i < len(fs); i += chunk {
			j := min(i+chunk, len(fs))
			cs = append(cs, core.MkCase("faults", params{Sc: sc, Faults: fs[i:j]}))
		}
	}
	return cs
}

func gens(sc scenario, f fault, salt string) []specgen.GenSpec {
	okG := specgen.GenSpec{Name: "ok", Def: specgen.Behav{Mode: "render", Salt: salt, Defers: 1}}
	bad := specgen.GenSpec{Name: "bad", Alias: true, Def: specgen.Behav{Mode: "render", Salt: salt, Defers: 1}, Pkg: map[string]specgen.Behav{}}
	if f.Pkg != "" {
		p := pathOf(f.Pkg)
		switch f.Kind {
		case "type-error":
			bad.Pkg[p] = specgen.Behav{Mode: "error", At: f.At, Salt: salt, Defers: 1, Others: f.Others}
			if f.Others == "early" {
				bad.Pkg[p] = specgen.Behav{Mode: "error-early", At: f.At, Salt: salt}
			}
		case "defer-error":
			bad.Pkg[p] = specgen.Behav{Mode: "defer-error", At: f.At, Salt: salt, Defers: 1}
		case "bad-syntax":
			bad.Pkg[p] = specgen.Behav{Mode: "bad-syntax", At: f.At, Salt: salt, Defers: 1, Others: f.Others}
			if f.Others == "tail" {
				bad.Pkg[p] = specgen.Behav{Mode: "bad-syntax-tail", At: f.At, Salt: salt, Defers: 1}
			}
		case "alias-error":
			bad.Pkg[p] = specgen.Behav{Mode: "alias-error", Salt: salt, Defers: 1}
		case "wrapped-skip":
			bad.Pkg[p] = specgen.Behav{Mode: "wrapped-skip", Salt: salt}
		case "wrapped-ignore":
			bad.Pkg[p] = specgen.Behav{Mode: "wrapped-ignore", Salt: salt}
		case "skip-text-error":
			bad.Pkg[p] = specgen.Behav{Mode: "skip-text-error", At: f.At, Salt: salt, Defers: 1}
		case "panic":
			bad.Pkg[p] = specgen.Behav{Mode: "panic", At: f.At, Salt: salt, Defers: 1}
		case "kill-type":
			bad.Pkg[p] = specgen.Behav{Mode: "kill", At: f.At, Salt: salt, Defers: 1}
		case "kill-defer":
			bad.Pkg[p] = specgen.Behav{Mode: "kill-defer", At: f.At, Salt: salt, Defers: 1}
		}
	}
	if sc.BadFirst {
		return []specgen.GenSpec{bad, okG}
	}
	return []specgen.GenSpec{okG, bad}
}

func argsOf(sc scenario) specgen.Args {
	return specgen.Args{Entrypoint: []string{"./a", "./c"}, OutputFileBaseName: base, All: sc.All}
}

// prepare builds the module in state S0 + edits (every package due).
func prepare(w *core.Worker, sc scenario, name string) (*fixture.Module, []*layout.Pkg, error) {
	m, err := fixture.New(w.Scratch, name, mod, "1.24")
	if err != nil {
		return nil, nil, err
	}
	ps := pkgsOf(sc)
	for _, p := range ps {
		p.Write(m)
	}
	none := fault{}
	r0 := specgen.RunInProcess(m.Root, specgen.Args{Entrypoint: []string{"./a", "./c"}, OutputFileBaseName: base, All: true}, gens(sc, none, "v0"))
	if r0.Failed {
		return nil, nil, fmt.Errorf("S0 run failed: %s", r0.Err+r0.Panic)
	}
	for _, p := range ps {
		p.Salt = "edited"
		p.Write(m)
		if sc.Stale {
			m.MustWrite(filepath.Join(p.Dir, base+".gone.go"), "package "+p.Name+"\n\n// stale output\n")
		}
	}
	return m, ps, nil
}

var posRe = regexp.MustCompile(`zz_generated\.bad\.go:\d+:\d+`)

func started(res specgen.Result) map[string]bool {
	ex := map[string]bool{}
	for _, e := range res.Events {
		if e.Kind == "hook" && e.Name == "pkg:start" {
			ex[e.Detail] = true
		}
	}
	return ex
}

// treeOracle: paths changed must be own outputs of started packages; changed .go files must parse.
func treeOracle(add func(oracle, format string, a ...any), ps []*layout.Pkg, before, after map[string]fixture.Entry, m *fixture.Module, startedPkgs map[string]bool, knowStarted bool, allowSum bool, tolerateEmpty map[string]bool) {
	created, changed, deleted := fixture.Diff(before, after)
	dirs := map[string]*layout.Pkg{}
	for _, p := range ps {
		dirs[p.Dir] = p
	}
	for _, path := range append(append(created, changed...), deleted...) {
		if path == "gengo.sum" {
			if !allowSum {
				add("sum-untouched", "gengo.sum was created / rewritten / deleted by a run that did not complete successfully")
			}
			continue
		}
		d := filepath.Dir(path)
		p, ok := dirs[d]
		if !ok || !strings.HasPrefix(filepath.Base(path), base+".") {
			add("outside-allow-set", "%s changed: not an output file of a package of the run", path)
			continue
		}
		// (only when the run reported package starts at all: the hook is an observation aid, its absence proves nothing)
		if knowStarted && len(startedPkgs) > 0 && !startedPkgs[pathOf(p.Dir)] {
			add("outside-allow-set", "%s changed but package %s was never started", path, p.Dir)
		}
	}
	for _, path := range append(created, changed...) {
		if !strings.HasSuffix(path, ".go") {
			continue
		}
		b, _ := m.Read(path)
		if _, err := parser.ParseFile(token.NewFileSet(), path, b, parser.AllErrors); err != nil {
			if tolerateEmpty[path] && len(b) == 0 {
				continue
			}
			add("written-files-parse", "%s was written but does not parse: %v", path, err)
		}
	}
}

func (p *prop) runFault(c core.Case, w *core.Worker, res *core.Result, sc scenario, f fault, idx int) {
	m, ps, err := prepare(w, sc, fmt.Sprintf("c02-%d-%d", c.ID, idx))
	if err != nil {
		res.Inconclusive = append(res.Inconclusive, err.Error())
		return
	}
	defer m.Remove()
	res.Evals++
	res.NonTrivial(fmt.Sprintf("%d|%s", sc.ID, f))
	res.Inc("fault_" + f.Kind)
	add := func(oracle, format string, a ...any) {
		res.Fail(oracle, f.Kind+" "+keyDetail(f), fmt.Sprintf("scenario %+v, fault [%s]: ", sc, f)+fmt.Sprintf(format, a...), map[string]any{"scenario": sc, "fault": f})
	}
	if f.Kind == "unwritable" {
		_ = os.Remove(filepath.Join(m.Root, f.Pkg, base+".bad.go"))
		_ = os.MkdirAll(filepath.Join(m.Root, f.Pkg, base+".bad.go"), 0o755)
	}
	before := m.Snapshot()
	sumBefore, sumErr := os.ReadFile(filepath.Join(m.Root, "gengo.sum"))
	gs := gens(sc, f, "v1")
	args := argsOf(sc)
	failingFile := ""
	if f.Pkg != "" {
		failingFile = filepath.Join(f.Pkg, base+".bad.go")
	}
	directOnly := !sc.All
	pkgRuns := func(dir string) bool {
		if !directOnly {
			return true
		}
		return dir == "a" || dir == "c"
	}

	isKill := strings.HasPrefix(f.Kind, "kill")
	if !isKill {
		run := specgen.RunInProcess(m.Root, args, gs)
		after := m.Snapshot()
		st := started(run)
		expectFail := true
		switch f.Kind {
		case "wrapped-skip", "wrapped-ignore":
			expectFail = false
		}
		if !pkgRuns(f.Pkg) {
			expectFail = false
		}
		res.Inc("in_process_fault_runs")
		if f.Kind == "panic" && run.Panic != "" {
			// a generator panic is outside the statement's fault classes (error / unparseable / death): only the tree oracles apply
			res.Inc("generator_panics_escaped_execute")
			treeOracle(add, ps, before, after, m, st, true, false, nil)
			if failingFile != "" && before[failingFile] != after[failingFile] {
				add("failing-file-identical", "%s changed although its generator panicked", failingFile)
			}
			return
		}
		if expectFail && !run.Failed {
			add("error-returned", "Execute returned no error")
			return
		}
		if !expectFail {
			if run.Failed {
				add("swallowed", "a wrapped ErrSkip / ErrIgnore (or a fault in a package that is not executed) made Execute fail: %s", clip(run.Err+run.Panic, 500))
			}
			return
		}
		// message
		switch f.Kind {
		case "type-error", "defer-error", "alias-error", "skip-text-error", "panic":
			if !strings.Contains(run.Err, "bad") || !strings.Contains(run.Err, pathOf(f.Pkg)) {
				add("error-names-generator-and-package", "error %q does not name generator `bad` and package %s", run.Err, pathOf(f.Pkg))
			}
		case "bad-syntax":
			if !posRe.MatchString(run.Err) {
				add("error-has-position", "error %q carries no file:line:col position inside the would-be output file", run.Err)
			}
		}
		res.Inc("error_messages_checked")
		// failing file identical
		if before[failingFile] != after[failingFile] {
			add("failing-file-identical", "%s changed (before %v, after %v)", failingFile, before[failingFile], after[failingFile])
		}
		treeOracle(add, ps, before, after, m, st, true, false, nil)
		res.Inc("tree_snapshots_compared")
		return
	}

	// ---- process death in a child
	rs := specgen.RunSpec{Dir: m.Root, Args: args, Gens: gs}
	if f.Kind == "kill-hook" {
		rs.Fault = specgen.Fault{Point: f.Point, Nth: f.Nth}
	}
	child := specgen.RunChild(w.Scratch, rs)
	res.Inc("child_process_runs")
	if !pkgRuns(f.Pkg) && f.Kind != "kill-hook" {
		if child.Died {
			add("unexpected-death", "the child died although the fault package is not executed: %s", child.ExitStatus)
		}
		return
	}
	if !child.Died {
		// the point was never reached (fewer hits than enumerated): not a fault at all
		res.Inc("kill_points_not_reached")
		if f.Kind != "kill-hook" {
			add("kill-not-reached", "the kill point inside the generator was not reached; exit: %s", child.ExitStatus)
		}
		return
	}
	if !strings.Contains(child.ExitStatus, "killed") {
		res.Inconclusive = append(res.Inconclusive, fmt.Sprintf("child ended with %q instead of SIGKILL: %s", child.ExitStatus, clip(child.Stderr, 400)))
		return
	}
	res.Inc("process_deaths_observed")
	after := m.Snapshot()
	sumAfter, sumErrAfter := os.ReadFile(filepath.Join(m.Root, "gengo.sum"))
	if (sumErr != nil) != (sumErrAfter != nil) || string(sumBefore) != string(sumAfter) {
		add("sum-untouched", "gengo.sum differs after the process died")
	}
	inWrite := f.Kind == "kill-hook" && (f.Point == "write:after-open" || f.Point == "write:after-format")
	tol := map[string]bool{}
	if inWrite {
		for _, p := range ps {
			tol[filepath.Join(p.Dir, base+".ok.go")] = true
			tol[filepath.Join(p.Dir, base+".bad.go")] = true
		}
	}
	treeOracle(add, ps, before, after, m, nil, false, false, tol)
	allArgs := specgen.Args{Entrypoint: []string{"./a", "./c"}, OutputFileBaseName: base, All: true}
	// a FAILED generation right after the death, in the package where the dead process left a half-written temporary
	// file: Execute must still return the error (naming generator and package) and must not rewrite gengo.sum
	// (seeded change C02-m: cleaning up the leftover file overwrote the package's error with nil)
	if inWrite {
		left := map[string]bool{}
		for pth := range after {
			bn := filepath.Base(pth)
			if strings.HasPrefix(bn, base+".") && !strings.HasSuffix(bn, ".go") {
				left[filepath.Dir(pth)] = true
			}
		}
		for _, pk := range ps {
			if !left[pk.Dir] {
				continue
			}
			sum0, sumErr0 := os.ReadFile(filepath.Join(m.Root, "gengo.sum"))
			fr := specgen.RunInProcess(m.Root, allArgs, gens(sc, fault{Kind: "type-error", Pkg: pk.Dir}, "v1"))
			sum1, sumErr1 := os.ReadFile(filepath.Join(m.Root, "gengo.sum"))
			res.Inc("failing_runs_over_leftover_temp_files")
			if !fr.Failed {
				add("error-returned", "a run whose generator fails in %s - where the dead process left a temporary file - returned no error", pk.Dir)
			} else if !strings.Contains(fr.Err, "bad") || !strings.Contains(fr.Err, pathOf(pk.Dir)) {
				add("error-names-generator-and-package", "after the death: error %q does not name generator `bad` and package %s", fr.Err, pathOf(pk.Dir))
			}
			if (sumErr0 != nil) != (sumErr1 != nil) || string(sum0) != string(sum1) {
				add("sum-untouched", "gengo.sum was rewritten by a failed run over a leftover temporary file in %s", pk.Dir)
			}
			break
		}
	}
	// follow-up runs
	good := gens(sc, fault{}, "v1")
	follow := specgen.RunInProcess(m.Root, allArgs, good)
	if follow.Failed {
		if inWrite {
			res.Inc("followup_failed_after_crash_inside_write")
			add("followup-regenerates", "the follow-up run after a crash inside a file write failed instead of regenerating: %s", clip(follow.Err+follow.Panic, 600))
		} else {
			add("followup-regenerates", "the follow-up run failed: %s", clip(follow.Err+follow.Panic, 600))
		}
		return
	}
	// nobody may be trusted as cached unless recorded == current: after the edits no recorded sum can match, so nothing may be cached
	for _, e := range follow.Events {
		if e.Kind == "hook" && e.Name == "pkg:cached" {
			add("followup-regenerates", "after the crash the follow-up run skipped %s as cached although its directory differs from the recorded state", e.Detail)
		}
	}
	res.Inc("followup_runs_checked")
	if !inWrite {
		specgen.RunInProcess(m.Root, allArgs, good)
		got := outputs(m)
		// reference: same edits, three uninterrupted runs
		ref, _, err := prepare(w, sc, fmt.Sprintf("c02-%d-%d-ref", c.ID, idx))
		if err != nil {
			res.Inconclusive = append(res.Inconclusive, err.Error())
			return
		}
		defer ref.Remove()
		for i := 0; i < 3; i++ {
			specgen.RunInProcess(ref.Root, allArgs, good)
		}
		want := outputs(ref)
		if d := diffMaps(got, want); d != "" {
			add("recovers-to-uninterrupted-state", "after the crash and two follow-up runs the outputs differ from three uninterrupted runs: %s", d)
		}
		res.Inc("recovery_trees_compared")
	}
}

func outputs(m *fixture.Module) map[string]string {
	out := map[string]string{}
	for p, e := range m.Snapshot() {
		if strings.HasPrefix(filepath.Base(p), base+".") || p == "gengo.sum" {
			out[p] = e.Sum
		}
	}
	return out
}

func diffMaps(a, b map[string]string) string {
	var d []string
	for k, v := range a {
		if b[k] != v {
			d = append(d, k)
		}
	}
	for k := range b {
		if _, ok := a[k]; !ok {
			d = append(d, k+"(missing)")
		}
	}
	sort.Strings(d)
	return strings.Join(d, ", ")
}

func keyDetail(f fault) string {
	if f.Kind == "kill-hook" {
		return f.Point
	}
	return ""
}

func clip(s string, n int) string {
	if len(s) <= n {
		return s
	}
	return s[:n] + "…"
}

func (p *prop) Run(c core.Case, w *core.Worker) core.Result {
	res := core.Result{CaseID: c.ID}
	var pa params
	c.Decode(&pa)
	for i, f := range pa.Faults {
		p.runFault(c, w, &res, pa.Sc, f, i)
	}
	if len(pa.Faults) > 0 {
		res.Sample(map[string]any{"scenario": pa.Sc, "fault": pa.Faults[0].String(), "fault_points_in_scenario": len(faultPoints(pa.Sc))}, 1)
	}
	return res
}
