// Package layout writes small multi-package scratch modules for the pipeline checks.
package layout

import (
	"fmt"
	"path/filepath"
	"strings"

	"verif/internal/fixture"
)

type Pkg struct {
	Dir     string   // relative dir ("" or "." = module root)
	Name    string   // package name
	Imports []string // import paths (module-local)
	Types   []string // defined types
	Aliases []string
	// Tags: package-doc tag lines (without the leading "// ")
	Tags []string
	// Salt changes the source text (and so the directory hash) without changing declarations.
	Salt string
	// ExtraFiles: additional files in the package dir (name -> content)
	ExtraFiles map[string]string
	// Typeless: the package declares no defined type at all (no Anchor either) - only a function, a constant, a variable
	// and whatever Aliases lists (aliases of predeclared types). Imported through ValueImports.
	Typeless bool
	// ValueImports: module-local import paths of Typeless packages (referenced as <pkg>.Value)
	ValueImports []string
}

func (p Pkg) Path(mod string) string {
	if p.Dir == "" || p.Dir == "." {
		return mod
	}
	return mod + "/" + filepath.ToSlash(p.Dir)
}

// Source renders the single source file of the package.
func (p Pkg) Source() string {
	var b strings.Builder
	for _, t := range p.Tags {
		b.WriteString("// " + t + "\n")
	}
	fmt.Fprintf(&b, "package %s\n\n", p.Name)
	if len(p.Imports)+len(p.ValueImports) > 0 {
		b.WriteString("import (\n")
		for i, ip := range p.Imports {
			fmt.Fprintf(&b, "\tdep%d %q\n", i, ip)
		}
		for i, ip := range p.ValueImports {
			fmt.Fprintf(&b, "\tvdep%d %q\n", i, ip)
		}
		b.WriteString(")\n\n")
		for i := range p.Imports {
			fmt.Fprintf(&b, "var _ dep%d.Anchor\n", i)
		}
		for i := range p.ValueImports {
			fmt.Fprintf(&b, "var _ = vdep%d.Value\n", i)
		}
		b.WriteString("\n")
	}
	if p.Typeless {
		b.WriteString("const Limit = 3\n\nvar Value = Limit + 1\n\nfunc Compute() int { return Value }\n\n")
		for _, a := range p.Aliases {
			fmt.Fprintf(&b, "type %s = int\n\n", a)
		}
		if p.Salt != "" {
			fmt.Fprintf(&b, "// salt %s\n", p.Salt)
		}
		return b.String()
	}
	b.WriteString("type Anchor struct{ N int }\n\n")
	for i, t := range p.Types {
		switch i % 3 {
		case 0:
			fmt.Fprintf(&b, "type %s struct {\n\tA int\n\tB string\n}\n\n", t)
		case 1:
			fmt.Fprintf(&b, "type %s int\n\n", t)
		default:
			fmt.Fprintf(&b, "type %s map[string]int\n\n", t)
		}
	}
	for _, a := range p.Aliases {
		fmt.Fprintf(&b, "type %s = Anchor\n\n", a)
	}
	if p.Salt != "" {
		fmt.Fprintf(&b, "// salt %s\n", p.Salt)
	}
	return b.String()
}

func (p Pkg) Write(m *fixture.Module) {
	m.MustWrite(filepath.Join(p.Dir, p.Name+"_src.go"), p.Source())
	for n, c := range p.ExtraFiles {
		m.MustWrite(filepath.Join(p.Dir, n), c)
	}
}

// TypeNames: defined types incl. Anchor.
func (p Pkg) AllTypes() []string {
	if p.Typeless {
		return nil
	}
	return append([]string{"Anchor"}, p.Types...)
}
