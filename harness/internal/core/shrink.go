package core

import "unicode/utf8"

// ShrinkString greedily removes runes (and chunks) from s while failing(s) stays true.
func ShrinkString(s string, failing func(string) bool) string {
	if !failing(s) {
		return s
	}
	for chunk := len(s) / 2; chunk >= 1; chunk /= 2 {
		changed := true
		for changed {
			changed = false
			for i := 0; i+chunk <= len(s); {
				if !utf8.RuneStart(s[i]) || (i+chunk < len(s) && !utf8.RuneStart(s[i+chunk])) {
					i++
					continue
				}
				cand := s[:i] + s[i+chunk:]
				if failing(cand) {
					s = cand
					changed = true
				} else {
					i++
				}
			}
		}
	}
	return s
}

// ShrinkSlice greedily removes elements while failing stays true.
func ShrinkSlice[T any](xs []T, failing func([]T) bool) []T {
	if !failing(xs) {
		return xs
	}
	for i := 0; i < len(xs); {
		cand := append(append([]T{}, xs[:i]...), xs[i+1:]...)
		if failing(cand) {
			xs = cand
		} else {
			i++
		}
	}
	return xs
}
