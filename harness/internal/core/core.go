// Package core is the shared skeleton of every check: a deterministic, seed-determined case
// list is sharded over worker sub-processes; each worker executes the real gengo code on one
// case at a time and reports observations; the coordinator aggregates evidence, classifies
// failures against known_findings.json and decides the three-valued verdict.
package core

import (
	"encoding/json"
	"fmt"
	"hash/fnv"
	"sort"
)

// Case is one unit of work handed to a worker. A case may be a batch of many inputs.
type Case struct {
	Prop   string          `json:"prop"`
	ID     int             `json:"id"`
	Tier   string          `json:"tier"`
	Seed   int64           `json:"seed"`
	Kind   string          `json:"kind"`
	Params json.RawMessage `json:"params,omitempty"`
	// Resume: sub-item index to resume from after a worker death (C14), and items to skip.
	Resume int   `json:"resume,omitempty"`
	SkipIx []int `json:"skip_ix,omitempty"`
}

func (c Case) Decode(v any) {
	if len(c.Params) == 0 {
		return
	}
	if err := json.Unmarshal(c.Params, v); err != nil {
		panic(fmt.Errorf("case %d: bad params: %w", c.ID, err))
	}
}

func MkCase(kind string, params any) Case {
	b, err := json.Marshal(params)
	if err != nil {
		panic(err)
	}
	return Case{Kind: kind, Params: b}
}

// Failure is one oracle disagreement.
type Failure struct {
	Oracle string `json:"oracle"`
	// Key identifies the finding: oracle + shrunk failing input; matched against known_findings.json.
	Key    string `json:"key"`
	Detail string `json:"detail"`
	Input  any    `json:"input,omitempty"`
	CaseID int    `json:"case_id"`
	Case   *Case  `json:"case,omitempty"`
}

// Result is what a worker observed for one case.
type Result struct {
	CaseID int `json:"case_id"`
	// Evals: inputs / executions evaluated in this case.
	Evals int64 `json:"evals"`
	// Distinct: fingerprints of the evaluated inputs that are non-trivial by the property's rule.
	Distinct []uint64 `json:"distinct,omitempty"`
	// DistinctN: non-trivial inputs that are distinct by construction (exhaustive enumerations
	// over disjoint shards), counted, not hashed.
	DistinctN int64 `json:"distinct_n,omitempty"`
	// Obs: observation counters (oracle assertions evaluated, corners reached, events seen...).
	Obs          map[string]int64 `json:"obs,omitempty"`
	Samples      []any            `json:"samples,omitempty"`
	Failures     []Failure        `json:"failures,omitempty"`
	Inconclusive []string         `json:"inconclusive,omitempty"`
	// Digests: named digests that must agree whenever two cases (possibly in different worker
	// processes) report the same name: cross-process determinism.
	Digests map[string]string `json:"digests,omitempty"`
	// SubDone: number of sub-items completed (for resume after a crash).
	SubDone int `json:"sub_done,omitempty"`
}

func (r *Result) Count(k string, n int64) {
	if r.Obs == nil {
		r.Obs = map[string]int64{}
	}
	r.Obs[k] += n
}

func (r *Result) Inc(k string) { r.Count(k, 1) }

func (r *Result) Digest(name, value string) {
	if r.Digests == nil {
		r.Digests = map[string]string{}
	}
	r.Digests[name] = value
}

const maxFailuresPerCase = 25

func (r *Result) Fail(oracle, key, detail string, input any) {
	r.Count("failures_total", 1)
	if len(r.Failures) >= maxFailuresPerCase {
		return
	}
	r.Failures = append(r.Failures, Failure{Oracle: oracle, Key: oracle + ":" + key, Detail: detail, Input: input, CaseID: r.CaseID})
}

func (r *Result) Failf(oracle, key string, input any, format string, a ...any) {
	r.Fail(oracle, key, fmt.Sprintf(format, a...), input)
}

func (r *Result) Sample(v any, max int) {
	if len(r.Samples) < max {
		r.Samples = append(r.Samples, v)
	}
}

func (r *Result) NonTrivial(fingerprint string) {
	r.Distinct = append(r.Distinct, Hash64(fingerprint))
}

func Hash64(s string) uint64 {
	h := fnv.New64a()
	_, _ = h.Write([]byte(s))
	return h.Sum64()
}

// SubSeed derives a per-case seed from the run seed; case lists are a function of (seed, tier) only.
func SubSeed(seed int64, prop string, idx int) int64 {
	h := fnv.New64a()
	_, _ = fmt.Fprintf(h, "%d/%s/%d", seed, prop, idx)
	return int64(h.Sum64() & 0x7fffffffffffffff)
}

// Property is implemented once per property id.
type Property interface {
	ID() string
	// Level is the MANIFEST category: exploration | fault_enumeration.
	Level() string
	// Rule describes generation / enumeration and what makes a case non-trivial and distinct.
	Rule() string
	Assumptions() []string
	// Cases returns the deterministic case list for (seed, tier).
	Cases(seed int64, tier string) []Case
	// Run executes one case inside a worker process.
	Run(c Case, w *Worker) Result
	// MinDistinct is the minimum number of distinct non-trivial cases below which a run is inconclusive.
	MinDistinct(tier string) int64
}

// Optional interfaces.

// Racer: property wants the -race binary for the given tier.
type Racer interface{ WantsRace(tier string) bool }

// Finisher: coordinator-side post-processing over all results (cross-case oracles).
type Finisher interface {
	Finish(seed int64, tier string, agg *Aggregate)
}

// Exhaustive: the run enumerated a finite space completely.
type Exhaustive interface{ Exhaustive(tier string) bool }

// Workers: override worker count.
type WorkerCount interface{ Workers(tier string) int }

var registry = map[string]Property{}

func Register(p Property) { registry[p.ID()] = p }

func Lookup(id string) Property { return registry[id] }

func IDs() []string {
	ids := make([]string, 0, len(registry))
	for id := range registry {
		ids = append(ids, id)
	}
	sort.Strings(ids)
	return ids
}

// Helpers are small entry points run in a fresh child process of the same binary (`vcheck -helper <name> <file>`).
var helpers = map[string]func(argFile string){}

func RegisterHelper(name string, fn func(argFile string)) { helpers[name] = fn }

func RunHelper(name, argFile string) {
	fn, ok := helpers[name]
	if !ok {
		panic("unknown helper " + name)
	}
	fn(argFile)
}
