package core

import (
	"bufio"
	"encoding/json"
	"fmt"
	"io"
	"os"
	"os/exec"
	"path/filepath"
	"runtime"
	"sort"
	"strconv"
	"strings"
	"sync"
	"syscall"
	"time"
)

// Aggregate is the coordinator's view over all results of a run.
type Aggregate struct {
	mu           sync.Mutex
	Evals        int64
	DistinctSet  map[uint64]struct{}
	DistinctN    int64
	Obs          map[string]int64
	Samples      []any
	Failures     []Failure
	Inconclusive []string
	CasesRun     int
	CasesTotal   int
	Crashes      int
	Extra        map[string]any
	Digests      map[string]string
	DigestPairs  int64
}

func (a *Aggregate) add(r *Result, c *Case) {
	a.mu.Lock()
	defer a.mu.Unlock()
	a.CasesRun++
	a.Evals += r.Evals
	for _, h := range r.Distinct {
		a.DistinctSet[h] = struct{}{}
	}
	a.DistinctN += r.DistinctN
	for k, v := range r.Obs {
		if strings.HasPrefix(k, "max_") {
			if v > a.Obs[k] {
				a.Obs[k] = v
			}
			continue
		}
		a.Obs[k] += v
	}
	for _, s := range r.Samples {
		if len(a.Samples) < 8 {
			a.Samples = append(a.Samples, s)
		}
	}
	for _, f := range r.Failures {
		f.Case = c
		a.Failures = append(a.Failures, f)
	}
	a.Inconclusive = append(a.Inconclusive, r.Inconclusive...)
	for k, v := range r.Digests {
		if a.Digests == nil {
			a.Digests = map[string]string{}
		}
		if prev, ok := a.Digests[k]; ok {
			a.DigestPairs++
			if prev != v {
				a.Failures = append(a.Failures, Failure{Oracle: "cross-process-determinism", Key: "cross-process-determinism:" + k,
					Detail: fmt.Sprintf("digest %q differs between two executions: %s vs %s", k, prev, v), CaseID: r.CaseID, Case: c})
			}
		} else {
			a.Digests[k] = v
		}
	}
}

func (a *Aggregate) Fail(f Failure) {
	a.mu.Lock()
	defer a.mu.Unlock()
	a.Failures = append(a.Failures, f)
}

func (a *Aggregate) Distinct() int64 { return int64(len(a.DistinctSet)) + a.DistinctN }

type RunOpts struct {
	Prop       Property
	Tier       string
	Seed       int64
	Exe        string // path of this binary (race or plain)
	Race       bool
	VerifRoot  string
	Repo       string
	ReplayCase *Case
	CaseTimout time.Duration
	Started    time.Time
}

type workerProc struct {
	id       int
	cmd      *exec.Cmd
	stdin    io.WriteCloser
	inflight *Case
	lastSub  int
	lastNote string
	stderr   *tailBuf
	started  time.Time
	dead     bool
}

type tailBuf struct {
	mu  sync.Mutex
	buf []byte
	max int
}

func (t *tailBuf) Write(p []byte) (int, error) {
	t.mu.Lock()
	defer t.mu.Unlock()
	t.buf = append(t.buf, p...)
	if len(t.buf) > t.max {
		// keep head (first 6k: panic message / fatal error line) and tail
		head := 6 << 10
		if len(t.buf) > head+t.max/2 {
			nb := append([]byte{}, t.buf[:head]...)
			nb = append(nb, []byte("\n...[snip]...\n")...)
			nb = append(nb, t.buf[len(t.buf)-t.max/2+head:]...)
			t.buf = nb
		}
	}
	return len(p), nil
}

func (t *tailBuf) String() string {
	t.mu.Lock()
	defer t.mu.Unlock()
	return string(t.buf)
}

type event struct {
	w   *workerProc
	msg *wireMsg
	eof bool
}

// Run executes the property's case list on a pool of workers and returns the aggregate.
func Run(o RunOpts) (*Aggregate, error) {
	p := o.Prop
	var cases []Case
	if o.ReplayCase != nil {
		cases = []Case{*o.ReplayCase}
	} else {
		cases = p.Cases(o.Seed, o.Tier)
	}
	for i := range cases {
		cases[i].Prop = p.ID()
		cases[i].Tier = o.Tier
		if o.ReplayCase == nil {
			cases[i].ID = i
			if cases[i].Seed == 0 {
				cases[i].Seed = SubSeed(o.Seed, p.ID(), i)
			}
		}
	}

	agg := &Aggregate{DistinctSet: map[uint64]struct{}{}, Obs: map[string]int64{}, CasesTotal: len(cases), Extra: map[string]any{}}

	nw := runtime.NumCPU()
	if nw > 16 {
		nw = 16
	}
	if wc, ok := p.(WorkerCount); ok {
		nw = wc.Workers(o.Tier)
	}
	if nw > len(cases) {
		nw = len(cases)
	}
	if nw < 1 {
		nw = 1
	}

	scratchRoot, err := os.MkdirTemp("", "verif-"+p.ID()+"-")
	if err != nil {
		return nil, err
	}
	defer os.RemoveAll(scratchRoot)
	raceDir := filepath.Join(scratchRoot, "race")
	_ = os.MkdirAll(raceDir, 0o755)

	events := make(chan event, 256)
	queue := cases
	next := 0
	requeue := []Case{}

	spawn := func(id int) (*workerProc, error) {
		wdir := filepath.Join(scratchRoot, fmt.Sprintf("w%d", id))
		_ = os.MkdirAll(wdir, 0o755)
		cmd := exec.Command(o.Exe, "-worker")
		cmd.SysProcAttr = &syscall.SysProcAttr{Pdeathsig: syscall.SIGKILL}
		cmd.Env = append(os.Environ(),
			"VERIF_SCRATCH="+wdir,
			"VERIF_REPO="+o.Repo,
			"VERIF_ROOT="+o.VerifRoot,
			"VERIF_EXE="+o.Exe,
			"TMPDIR="+wdir,
		)
		if o.Race {
			cmd.Env = append(cmd.Env, "GORACE=halt_on_error=0 exitcode=0 log_path="+filepath.Join(raceDir, "race"))
		}
		stdin, err := cmd.StdinPipe()
		if err != nil {
			return nil, err
		}
		stdout, err := cmd.StdoutPipe()
		if err != nil {
			return nil, err
		}
		tb := &tailBuf{max: 48 << 10}
		cmd.Stderr = tb
		if err := cmd.Start(); err != nil {
			return nil, err
		}
		w := &workerProc{id: id, cmd: cmd, stdin: stdin, stderr: tb}
		go func() {
			rd := bufio.NewReaderSize(stdout, 1<<20)
			dec := json.NewDecoder(rd)
			for {
				var m wireMsg
				if err := dec.Decode(&m); err != nil {
					break
				}
				mm := m
				events <- event{w: w, msg: &mm}
			}
			_ = cmd.Wait()
			events <- event{w: w, eof: true}
		}()
		return w, nil
	}

	watchdogFires := 0
	gaveUp := false
	send := func(w *workerProc) bool {
		var c Case
		if watchdogFires >= 3 {
			// the code under test hangs: do not feed it the rest of the workload (every further case would cost a full
			// watchdog period); the run ends inconclusive
			if !gaveUp {
				gaveUp = true
				left := len(requeue) + len(queue) - next
				agg.Inconclusive = append(agg.Inconclusive, fmt.Sprintf("%d cases not executed: the watchdog fired %d times, the code under test appears to hang", left, watchdogFires))
			}
			requeue = nil
			next = len(queue)
			return false
		}
		if len(requeue) > 0 {
			c = requeue[0]
			requeue = requeue[1:]
		} else if next < len(queue) {
			c = queue[next]
			next++
		} else {
			return false
		}
		w.inflight = &c
		w.lastSub = -1
		w.lastNote = ""
		w.started = time.Now()
		b, _ := json.Marshal(c)
		b = append(b, '\n')
		if _, err := w.stdin.Write(b); err != nil {
			// worker already dead; eof handler will deal with inflight
		}
		return true
	}

	live := 0
	workers := map[int]*workerProc{}
	nextWorkerID := 0
	startWorker := func() error {
		w, err := spawn(nextWorkerID)
		if err != nil {
			return err
		}
		workers[w.id] = w
		nextWorkerID++
		live++
		return nil
	}
	for i := 0; i < nw; i++ {
		if err := startWorker(); err != nil {
			return nil, err
		}
	}

	caseTimeout := o.CaseTimout
	if caseTimeout == 0 {
		// generous against a loaded machine (the slowest quick case takes about 40 s on an idle one, the slowest
		// thorough case about 6 min), small enough that a hang in the code under test does not cost hours
		caseTimeout = 6 * time.Minute
		if o.Tier == "thorough" {
			caseTimeout = 30 * time.Minute
		}
		if v, err := strconv.Atoi(os.Getenv("VERIF_CASE_TIMEOUT_S")); err == nil && v > 0 {
			caseTimeout = time.Duration(v) * time.Second
		}
	}
	verbose := os.Getenv("VERIF_VERBOSE") != ""
	tick := time.NewTicker(2 * time.Second)
	defer tick.Stop()

	pending := func() bool { return len(requeue) > 0 || next < len(queue) }
	inflightCount := func() int {
		n := 0
		for _, w := range workers {
			if !w.dead && w.inflight != nil {
				n++
			}
		}
		return n
	}
	deathCount := map[int]int{}

	for live > 0 {
		select {
		case ev := <-events:
			w := ev.w
			if ev.eof {
				w.dead = true
				live--
				if w.inflight != nil {
					c := *w.inflight
					w.inflight = nil
					agg.Crashes++
					deathCount[c.ID]++
					if verbose {
						fmt.Fprintf(os.Stderr, "death: case %d (%s) sub %d (%s) after %s\n", c.ID, c.Kind, w.lastSub, w.lastNote, time.Since(w.started).Round(time.Millisecond))
					}
					if w.lastNote == "__watchdog__" {
						watchdogFires++
						agg.Inconclusive = append(agg.Inconclusive, fmt.Sprintf("case %d: watchdog fired after %s", c.ID, caseTimeout))
					} else {
						st := w.stderr.String()
						note := w.lastNote
						agg.Fail(Failure{
							Oracle: "process-death",
							Key:    "process-death:" + c.Kind + ":" + note,
							Detail: fmt.Sprintf("worker process died (%v) while executing case %d sub-item %d (%s); stderr:\n%s", w.cmd.ProcessState, c.ID, w.lastSub, note, clip(st, 6000)),
							CaseID: c.ID, Case: &c,
							Input: map[string]any{"sub": w.lastSub, "note": note},
						})
						if w.lastSub >= 0 && deathCount[c.ID] < 4 {
							// resume the batch after the offender so one fatal error does not hide the next
							c.Resume = w.lastSub + 1
							requeue = append(requeue, c)
						}
					}
				}
				if pending() {
					_ = startWorker() // its hello message triggers the next send
				}
				continue
			}
			switch ev.msg.T {
			case "H":
				if !send(w) {
					_ = w.stdin.Close()
				}
			case "B":
				w.lastSub = ev.msg.Sub
				w.lastNote = ev.msg.Note
			case "R":
				if verbose {
					fmt.Fprintf(os.Stderr, "done: case %d (%s) in %s, %d failures\n", w.inflight.ID, w.inflight.Kind, time.Since(w.started).Round(time.Millisecond), len(ev.msg.Result.Failures))
				}
				agg.add(ev.msg.Result, w.inflight)
				w.inflight = nil
				if !send(w) {
					_ = w.stdin.Close()
				}
			}
		case <-tick.C:
			for _, w := range workers {
				if !w.dead && w.inflight != nil && time.Since(w.started) > caseTimeout {
					w.lastNote = "__watchdog__"
					_ = w.cmd.Process.Kill()
				}
			}
			_ = inflightCount
		}
	}

	// race reports
	if o.Race {
		n, sample := countRaceReports(raceDir)
		agg.Obs["race_reports"] = int64(n)
		if n > 0 {
			agg.Fail(Failure{Oracle: "race-detector", Key: "race-detector:" + raceKey(sample), Detail: clip(sample, 8000)})
		}
	}

	if f, ok := p.(Finisher); ok {
		f.Finish(o.Seed, o.Tier, agg)
	}

	sort.SliceStable(agg.Failures, func(i, j int) bool { return agg.Failures[i].CaseID < agg.Failures[j].CaseID })
	return agg, nil
}

func clip(s string, n int) string {
	if len(s) <= n {
		return s
	}
	return s[:n/2] + "\n...[snip]...\n" + s[len(s)-n/2:]
}

func countRaceReports(dir string) (int, string) {
	ents, _ := os.ReadDir(dir)
	n := 0
	sample := ""
	for _, e := range ents {
		b, err := os.ReadFile(filepath.Join(dir, e.Name()))
		if err != nil {
			continue
		}
		c := strings.Count(string(b), "WARNING: DATA RACE")
		n += c
		if c > 0 && sample == "" {
			sample = string(b)
		}
	}
	return n, sample
}

// raceKey: first two function names in the report (outermost-ish frames differ per run; this is a
// coarse, stable key).
func raceKey(report string) string {
	var fns []string
	for _, l := range strings.Split(report, "\n") {
		l = strings.TrimSpace(l)
		if strings.HasPrefix(l, "github.com/octohelm/gengo") && strings.Contains(l, "(") {
			fns = append(fns, l[:strings.Index(l, "(")])
			if len(fns) == 2 {
				break
			}
		}
	}
	return strings.Join(fns, "|")
}
