package core

import (
	"bufio"
	"encoding/json"
	"fmt"
	"os"
	"runtime/debug"
	"syscall"
	"time"
)

// Worker is the per-process context handed to Property.Run.
type Worker struct {
	proto   *os.File
	enc     *json.Encoder
	Scratch string // per-worker scratch root (removed by the coordinator)
	Repo    string
	Verif   string
}

type wireMsg struct {
	T      string  `json:"t"` // "B" begin-sub, "R" result, "H" hello
	CaseID int     `json:"c,omitempty"`
	Sub    int     `json:"s,omitempty"`
	Note   string  `json:"n,omitempty"`
	Result *Result `json:"r,omitempty"`
}

// BeginSub tells the coordinator which sub-item is about to run, so that a process death
// (stack overflow, fatal error, SIGKILL) is attributed to exactly one item.
func (w *Worker) BeginSub(caseID, sub int, note string) {
	_ = w.enc.Encode(wireMsg{T: "B", CaseID: caseID, Sub: sub, Note: note})
}

// WorkerMain is the entry point of `vcheck -worker`: reads cases from stdin, writes results
// to a private duplicate of stdout, and points fd 1 at /dev/null so that nothing gengo prints
// (fmt.Println diagnostics, slog) can reach the protocol stream.
func WorkerMain() {
	protoFd, err := syscall.Dup(1)
	if err != nil {
		panic(err)
	}
	devnull, err := os.OpenFile("/dev/null", os.O_WRONLY, 0)
	if err != nil {
		panic(err)
	}
	if err := syscall.Dup2(int(devnull.Fd()), 1); err != nil {
		panic(err)
	}
	proto := os.NewFile(uintptr(protoFd), "proto")
	w := &Worker{
		proto:   proto,
		enc:     json.NewEncoder(proto),
		Scratch: os.Getenv("VERIF_SCRATCH"),
		Repo:    envOr("VERIF_REPO", "/repo"),
		Verif:   envOr("VERIF_ROOT", "/verif"),
	}
	debug.SetMaxStack(maxStack())
	// never outlive the coordinator
	ppid := os.Getppid()
	go func() {
		for {
			time.Sleep(time.Second)
			if os.Getppid() != ppid {
				os.Exit(4)
			}
		}
	}()
	_ = w.enc.Encode(wireMsg{T: "H"})

	in := bufio.NewReaderSize(os.Stdin, 1<<20)
	dec := json.NewDecoder(in)
	for {
		var c Case
		if err := dec.Decode(&c); err != nil {
			return
		}
		p := Lookup(c.Prop)
		if p == nil {
			panic("unknown property " + c.Prop)
		}
		res := runCase(p, c, w)
		res.CaseID = c.ID
		for i := range res.Failures {
			res.Failures[i].CaseID = c.ID
		}
		if err := w.enc.Encode(wireMsg{T: "R", CaseID: c.ID, Result: &res}); err != nil {
			fmt.Fprintln(os.Stderr, "worker: encode:", err)
			os.Exit(3)
		}
	}
}

func runCase(p Property, c Case, w *Worker) (res Result) {
	defer func() {
		if e := recover(); e != nil {
			// A panic that escapes the property's own recover() is a harness bug or an
			// unexpected panic of the code under test outside a guarded call: inconclusive
			// is wrong (it would hide a crash), so report it as a failure with the stack.
			res.CaseID = c.ID
			res.Fail("harness-panic", fmt.Sprintf("%s/%s", c.Prop, c.Kind), fmt.Sprintf("panic: %v\n%s", e, debug.Stack()), nil)
		}
	}()
	return p.Run(c, w)
}

func envOr(k, d string) string {
	if v := os.Getenv(k); v != "" {
		return v
	}
	return d
}

// Guard runs f and converts a panic into (panicked=true, value).
func Guard(f func()) (panicked bool, val any, stack string) {
	defer func() {
		if e := recover(); e != nil {
			panicked = true
			val = e
			stack = string(debug.Stack())
		}
	}()
	f()
	return
}

// maxStack: goroutine stack cap of the worker (default 64 MiB; VERIF_MAXSTACK_MB overrides).
func maxStack() int {
	if v := os.Getenv("VERIF_MAXSTACK_MB"); v != "" {
		var n int
		if _, err := fmt.Sscanf(v, "%d", &n); err == nil && n > 0 {
			return n << 20
		}
	}
	return 64 << 20
}
