package core

import (
	"math/rand"
	"strings"
)

// StringSpace enumerates all strings over Alphabet with length 0..MaxLen, addressed by index.
type StringSpace struct {
	Alphabet []string
	MaxLen   int
}

func (s StringSpace) countLen(l int) int64 {
	n := int64(1)
	for i := 0; i < l; i++ {
		n *= int64(len(s.Alphabet))
	}
	return n
}

// Size is the total number of strings.
func (s StringSpace) Size() int64 {
	t := int64(0)
	for l := 0; l <= s.MaxLen; l++ {
		t += s.countLen(l)
	}
	return t
}

// At returns the string with the given global index (shorter strings first).
func (s StringSpace) At(idx int64) string {
	l := 0
	for {
		c := s.countLen(l)
		if idx < c {
			break
		}
		idx -= c
		l++
	}
	parts := make([]string, l)
	k := int64(len(s.Alphabet))
	for i := l - 1; i >= 0; i-- {
		parts[i] = s.Alphabet[idx%k]
		idx /= k
	}
	return strings.Join(parts, "")
}

// Shards splits [0,Size) into n contiguous ranges.
func (s StringSpace) Shards(n int) [][2]int64 {
	total := s.Size()
	if int64(n) > total {
		n = int(total)
	}
	out := make([][2]int64, 0, n)
	for i := 0; i < n; i++ {
		lo := total * int64(i) / int64(n)
		hi := total * int64(i+1) / int64(n)
		out = append(out, [2]int64{lo, hi})
	}
	return out
}

// RandString draws a random string of n alphabet items.
func RandString(r *rand.Rand, alphabet []string, n int) string {
	var b strings.Builder
	for i := 0; i < n; i++ {
		b.WriteString(alphabet[r.Intn(len(alphabet))])
	}
	return b.String()
}
