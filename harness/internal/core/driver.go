package core

import (
	"encoding/json"
	"flag"
	"fmt"
	"os"
	"path/filepath"
	"sort"
	"strconv"
	"strings"
	"time"
)

type KnownFinding struct {
	Property string `json:"property"`
	Status   string `json:"status"` // open | fixed
	Key      string `json:"key,omitempty"`
	Commit   string `json:"commit,omitempty"`
	What     string `json:"what"`
}

type knownFile struct {
	Findings []KnownFinding `json:"findings"`
}

func loadKnown(root string) []KnownFinding {
	b, err := os.ReadFile(filepath.Join(root, "known_findings.json"))
	if err != nil {
		return nil
	}
	var kf knownFile
	if err := json.Unmarshal(b, &kf); err != nil {
		fmt.Fprintln(os.Stderr, "known_findings.json:", err)
		return nil
	}
	return kf.Findings
}

type evidenceFile struct {
	PropertyID  string         `json:"property_id"`
	Tier        string         `json:"tier"`
	Seed        int64          `json:"seed"`
	Level       string         `json:"level"`
	Coverage    map[string]any `json:"coverage"`
	Assumptions []string       `json:"assumptions"`
	WallS       float64        `json:"wall_s"`
	Violations  int            `json:"violations"`
	Verdict     string         `json:"verdict"`
}

// Main is the entry point of the vcheck binary.
func Main() {
	var (
		worker = flag.Bool("worker", false, "run as worker")
		prop   = flag.String("prop", "", "property id")
		tier   = flag.String("tier", "quick", "quick|thorough")
		replay = flag.String("replay", "", "replay file")
		race   = flag.Bool("race-binary", false, "this binary was built with -race")
		list   = flag.Bool("list", false, "list properties")
		wants  = flag.Bool("wants-race", false, "print yes/no: does (prop,tier) want the -race binary")
	)
	flag.Parse()
	if *worker {
		WorkerMain()
		return
	}
	if *list {
		for _, id := range IDs() {
			fmt.Println(id)
		}
		return
	}
	p := Lookup(*prop)
	if p == nil {
		fmt.Fprintf(os.Stderr, "unknown property %q (have %v)\n", *prop, IDs())
		os.Exit(3)
	}
	if *wants {
		if r, ok := p.(Racer); ok && r.WantsRace(*tier) {
			fmt.Println("yes")
		} else {
			fmt.Println("no")
		}
		return
	}
	seed := int64(1)
	if s := os.Getenv("VERIF_SEED"); s != "" {
		if v, err := strconv.ParseInt(s, 10, 64); err == nil {
			seed = v
		}
	}
	root := envOr("VERIF_ROOT", "/verif")
	repo := envOr("VERIF_REPO", "/repo")
	exe, _ := os.Executable()

	opts := RunOpts{Prop: p, Tier: *tier, Seed: seed, Exe: exe, Race: *race, VerifRoot: root, Repo: repo, Started: time.Now()}
	if *replay != "" {
		b, err := os.ReadFile(*replay)
		if err != nil {
			fmt.Fprintln(os.Stderr, err)
			os.Exit(3)
		}
		var rf struct {
			Failure Failure `json:"failure"`
		}
		if err := json.Unmarshal(b, &rf); err != nil || rf.Failure.Case == nil {
			fmt.Fprintln(os.Stderr, "bad replay file", err)
			os.Exit(3)
		}
		opts.ReplayCase = rf.Failure.Case
		if rf.Failure.Case.Tier != "" {
			opts.Tier = rf.Failure.Case.Tier
		}
	}

	start := time.Now()
	agg, err := Run(opts)
	if err != nil {
		fmt.Fprintln(os.Stderr, "run:", err)
		os.Exit(3)
	}
	wall := time.Since(start).Seconds()

	// classify failures against known findings
	known := loadKnown(root)
	open := map[string]KnownFinding{}
	for _, k := range known {
		if k.Property == p.ID() && k.Status == "open" {
			open[k.Key] = k
		}
	}
	var violations []Failure
	knownHit := map[string]int{}
	for _, f := range agg.Failures {
		if _, ok := open[f.Key]; ok {
			knownHit[f.Key]++
			continue
		}
		violations = append(violations, f)
	}
	for _, k := range sortedKeys(knownHit) {
		fmt.Printf("KNOWN-FINDING: property=%s %s (%d occurrences this run; key %s)\n", p.ID(), open[k].What, knownHit[k], k)
	}

	verdict := "held"
	exit := 0
	minD := p.MinDistinct(opts.Tier)
	if len(violations) > 0 {
		verdict = "violated"
		exit = 1
	} else if opts.ReplayCase == nil && (len(agg.Inconclusive) > 0 || agg.Distinct() < minD || agg.CasesRun < agg.CasesTotal) {
		verdict = "inconclusive"
		exit = 3
	}

	// evidence
	if opts.ReplayCase == nil {
		cov := map[string]any{
			"evaluations":         agg.Evals,
			"distinct_nontrivial": agg.Distinct(),
			"rule":                p.Rule(),
			"samples":             agg.Samples,
			"cases_run":           agg.CasesRun,
			"cases_total":         agg.CasesTotal,
			"observations":        agg.Obs,
			"worker_crashes":      agg.Crashes,
			"inconclusive":        agg.Inconclusive,
			"min_distinct":        minD,
			"race_detector":       opts.Race,
			"known_findings_hit":  knownHit,
			"cross_process_digest_pairs_compared": agg.DigestPairs,
		}
		if e, ok := p.(Exhaustive); ok && e.Exhaustive(opts.Tier) {
			cov["exhaustive"] = true
		}
		for k, v := range agg.Extra {
			cov[k] = v
		}
		if len(agg.Samples) == 0 {
			cov["samples"] = []any{}
		}
		ev := evidenceFile{
			PropertyID: p.ID(), Tier: opts.Tier, Seed: seed, Level: p.Level(), Coverage: cov,
			Assumptions: p.Assumptions(), WallS: wall, Violations: len(violations), Verdict: verdict,
		}
		_ = os.MkdirAll(filepath.Join(root, "evidence"), 0o755)
		b, _ := json.MarshalIndent(ev, "", " ")
		if err := os.WriteFile(filepath.Join(root, "evidence", p.ID()+".json"), append(b, '\n'), 0o644); err != nil {
			fmt.Fprintln(os.Stderr, "evidence:", err)
		}
	}

	fmt.Printf("%s tier=%s seed=%d verdict=%s cases=%d/%d evaluations=%d distinct_nontrivial=%d crashes=%d wall=%.1fs\n",
		p.ID(), opts.Tier, seed, verdict, agg.CasesRun, agg.CasesTotal, agg.Evals, agg.Distinct(), agg.Crashes, wall)
	for _, k := range sortedKeys64(agg.Obs) {
		fmt.Printf("  obs %-40s %d\n", k, agg.Obs[k])
	}
	for _, s := range agg.Inconclusive {
		fmt.Printf("INCONCLUSIVE: %s\n", s)
	}
	if verdict == "inconclusive" && agg.Distinct() < minD {
		fmt.Printf("INCONCLUSIVE: observed %d distinct non-trivial cases, minimum for tier is %d\n", agg.Distinct(), minD)
	}

	// replay files + VIOLATION lines (dedupe by key)
	if len(violations) > 0 {
		_ = os.MkdirAll(filepath.Join(root, "replay"), 0o755)
		seen := map[string]bool{}
		n := 0
		for _, f := range violations {
			if seen[f.Key] {
				continue
			}
			seen[f.Key] = true
			n++
			if n > 40 {
				break
			}
			name := fmt.Sprintf("%s-seed%d-%d.json", p.ID(), seed, n)
			if opts.ReplayCase != nil {
				name = fmt.Sprintf("%s-replayed-%d.json", p.ID(), n)
			}
			path := filepath.Join(root, "replay", name)
			b, _ := json.MarshalIndent(map[string]any{"property": p.ID(), "seed": seed, "tier": opts.Tier, "failure": f}, "", " ")
			_ = os.WriteFile(path, append(b, '\n'), 0o644)
			fmt.Printf("VIOLATION property=%s replay=%s\n", p.ID(), path)
			fmt.Printf("  oracle=%s key=%s\n  %s\n", f.Oracle, clip(f.Key, 300), strings.ReplaceAll(clip(f.Detail, 1500), "\n", "\n  "))
		}
		fmt.Printf("violations: %d (%d distinct keys)\n", len(violations), len(seen))
	}
	os.Exit(exit)
}

func sortedKeys(m map[string]int) []string {
	ks := make([]string, 0, len(m))
	for k := range m {
		ks = append(ks, k)
	}
	sort.Strings(ks)
	return ks
}

func sortedKeys64(m map[string]int64) []string {
	ks := make([]string, 0, len(m))
	for k := range m {
		ks = append(ks, k)
	}
	sort.Strings(ks)
	return ks
}
