// Package pipeline runs the real gengo (NewContext + Execute) on a scratch module inside the worker
// process and records an ordered event log: generator callbacks and the verif-tagged hook points.
package pipeline

import (
	"context"
	"fmt"
	"go/types"
	"os"
	"runtime/debug"
	"strings"
	"sync"

	"github.com/octohelm/gengo/pkg/gengo"
	"github.com/octohelm/gengo/pkg/gengo/snippet"

	"verif/internal/fixture"
)

type Event struct {
	Kind   string `json:"k"` // type alias defer-run new hook
	Pkg    string `json:"pkg,omitempty"`
	Gen    string `json:"gen,omitempty"`
	Name   string `json:"name,omitempty"`
	Detail string `json:"d,omitempty"`
}

func (e Event) String() string {
	return fmt.Sprintf("%s[%s %s %s %s]", e.Kind, e.Pkg, e.Gen, e.Name, e.Detail)
}

// Log is the process-wide event log (one gengo run at a time per process).
type Log struct {
	mu     sync.Mutex
	Events []Event
	// HookFault, when set, is called at every hook point; it may kill the process.
	HookFault func(point, detail string, nth int)
	hits      map[string]int
}

var Current = &Log{}

func (l *Log) Add(e Event) {
	l.mu.Lock()
	l.Events = append(l.Events, e)
	l.mu.Unlock()
}

func (l *Log) Reset() {
	l.mu.Lock()
	l.Events = nil
	l.hits = map[string]int{}
	l.mu.Unlock()
}

func (l *Log) Snapshot() []Event {
	l.mu.Lock()
	defer l.mu.Unlock()
	return append([]Event{}, l.Events...)
}

func init() {
	gengo.VerifHook = func(point, detail string) {
		l := Current
		l.mu.Lock()
		if l.hits == nil {
			l.hits = map[string]int{}
		}
		l.hits[point]++
		n := l.hits[point]
		l.Events = append(l.Events, Event{Kind: "hook", Name: point, Detail: detail})
		f := l.HookFault
		l.mu.Unlock()
		if f != nil {
			f(point, detail, n)
		}
	}
}

type Outcome struct {
	Err      error
	Panic    any
	Stack    string
	Events   []Event
	NewError error // error from NewContext
}

func (o Outcome) ErrString() string {
	switch {
	case o.Panic != nil:
		return fmt.Sprintf("panic: %v", o.Panic)
	case o.NewError != nil:
		return "NewContext: " + o.NewError.Error()
	case o.Err != nil:
		return o.Err.Error()
	}
	return ""
}

func (o Outcome) Failed() bool { return o.Err != nil || o.Panic != nil || o.NewError != nil }

var cwdMu sync.Mutex

// Execute runs gengo in dir (the process changes its working directory for the duration).
func Execute(dir string, args *gengo.GeneratorArgs, gens ...gengo.Generator) (out Outcome) {
	fixture.CleanGoEnv()
	cwdMu.Lock()
	defer cwdMu.Unlock()
	old, _ := os.Getwd()
	if err := os.Chdir(dir); err != nil {
		out.NewError = err
		return
	}
	defer os.Chdir(old)
	Current.Reset()
	defer func() {
		if e := recover(); e != nil {
			out.Panic = e
			out.Stack = string(debug.Stack())
		}
		out.Events = Current.Snapshot()
	}()
	c, err := gengo.NewContext(args)
	if err != nil {
		out.NewError = err
		return
	}
	out.Err = c.Execute(context.Background(), gens...)
	return
}

// InDir runs fn with the process's working directory set to dir (gengo.NewContext has no directory option); runs of
// the harness never overlap with it (same lock as Execute). fn may start several Executors of its own.
func InDir(dir string, fn func()) error {
	fixture.CleanGoEnv()
	cwdMu.Lock()
	defer cwdMu.Unlock()
	old, _ := os.Getwd()
	if err := os.Chdir(dir); err != nil {
		return err
	}
	defer os.Chdir(old)
	fn()
	return nil
}

// ---------------------------------------------------------------------------------------
// scripted generators

// Behaviour is the script of one generator (shared by all its per-package instances).
type Behaviour struct {
	Name string
	// OnType is called for every GenerateType. inst is the per-package instance number (1-based, counted by New).
	OnType func(c gengo.Context, named *types.Named, inst *Instance) error
	// OnAlias, when non-nil, makes the generator an AliasGenerator.
	OnAlias func(c gengo.Context, alias *types.Alias, inst *Instance) error
}

// Instance is the per-package state of a scripted generator.
type Instance struct {
	B      *Behaviour
	N      int // instance ordinal (how many times New was called for this behaviour in this process run)
	Seen   map[string]bool
	Helper bool
	Calls  int
}

var newCounts = map[string]int{}
var newMu sync.Mutex

func ResetNewCounts() {
	newMu.Lock()
	newCounts = map[string]int{}
	newMu.Unlock()
}

func NewCount(name string) int {
	newMu.Lock()
	defer newMu.Unlock()
	return newCounts[name]
}

func (b *Behaviour) newInstance() *Instance {
	newMu.Lock()
	newCounts[b.Name]++
	n := newCounts[b.Name]
	newMu.Unlock()
	return &Instance{B: b, N: n, Seen: map[string]bool{}}
}

func pkgOf(c gengo.Context) string {
	if p := c.Package(""); p != nil {
		return p.Pkg().Path()
	}
	return ""
}

// Gen is a scripted generator with a custom New (GeneratorNewer).
type Gen struct {
	B    *Behaviour
	Inst *Instance
}

func (g *Gen) Name() string { return g.B.Name }

// derive: like a generator whose New clones its receiver (`n := *g; return &n` - a prototype configured with options):
// whatever state the receiver carries is carried into the new instance. Called on the registered prototype (no state)
// that is a fresh instance; called on the instance of ANOTHER package it leaks that package's state (seeded change
// C05-n: New invoked on the previous package's instance) and the rendered bytes show it.
func (inst *Instance) derive(from *Instance) *Instance {
	if from != nil {
		for k, v := range from.Seen {
			inst.Seen[k] = v
		}
		inst.Helper = from.Helper
		inst.Calls = from.Calls
		Current.Add(Event{Kind: "new-on-instance", Gen: inst.B.Name})
	}
	return inst
}

func (g *Gen) New(c gengo.Context) gengo.Generator {
	inst := g.B.newInstance().derive(g.Inst)
	Current.Add(Event{Kind: "new", Pkg: pkgOf(c), Gen: g.B.Name, Detail: fmt.Sprint(inst.N)})
	return &Gen{B: g.B, Inst: inst}
}

func (g *Gen) GenerateType(c gengo.Context, named *types.Named) error {
	if g.Inst == nil {
		// the registered prototype itself must never be used for a package
		Current.Add(Event{Kind: "prototype-used", Pkg: pkgOf(c), Gen: g.B.Name, Name: named.Obj().Name()})
		g.Inst = &Instance{B: g.B, Seen: map[string]bool{}}
	}
	g.Inst.Calls++
	Current.Add(Event{Kind: "type", Pkg: pkgOf(c), Gen: g.B.Name, Name: named.Obj().Name(), Detail: TypeFingerprint(named)})
	if g.B.OnType == nil {
		return nil
	}
	return g.B.OnType(c, named, g.Inst)
}

// AliasGen additionally implements AliasGenerator.
type AliasGen struct{ Gen }

func (g *AliasGen) New(c gengo.Context) gengo.Generator {
	inst := g.B.newInstance().derive(g.Inst)
	Current.Add(Event{Kind: "new", Pkg: pkgOf(c), Gen: g.B.Name, Detail: fmt.Sprint(inst.N)})
	return &AliasGen{Gen{B: g.B, Inst: inst}}
}

func (g *AliasGen) GenerateAliasType(c gengo.Context, a *types.Alias) error {
	if g.Inst == nil {
		// the registered prototype itself must never be used for a package - for alias types either
		Current.Add(Event{Kind: "prototype-used", Pkg: pkgOf(c), Gen: g.B.Name, Name: a.Obj().Name()})
		g.Inst = &Instance{B: g.B, Seen: map[string]bool{}}
	}
	g.Inst.Calls++
	Current.Add(Event{Kind: "alias", Pkg: pkgOf(c), Gen: g.B.Name, Name: a.Obj().Name(), Detail: a.Obj().Pkg().Path()})
	if g.B.OnAlias == nil {
		return nil
	}
	return g.B.OnAlias(c, a, g.Inst)
}

// New builds the registered prototype for a behaviour.
func New(b *Behaviour) gengo.Generator {
	if b.OnAlias != nil {
		return &AliasGen{Gen{B: b}}
	}
	return &Gen{B: b}
}

// TypeFingerprint describes what gengo handed to the generator: owner package, kind, generic-ness.
func TypeFingerprint(named *types.Named) string {
	k := "other"
	switch named.Underlying().(type) {
	case *types.Struct:
		k = "struct"
	case *types.Basic:
		k = "scalar"
	case *types.Signature:
		k = "func"
	case *types.Interface:
		k = "interface"
	case *types.Map:
		k = "map"
	case *types.Slice:
		k = "slice"
	case *types.Array:
		k = "array"
	}
	g := ""
	if named.TypeParams().Len() > 0 {
		g = "+generic"
	}
	scope := "pkgscope"
	if named.Obj().Pkg() == nil || named.Obj().Parent() != named.Obj().Pkg().Scope() {
		scope = "NOT-PKG-SCOPE"
	}
	p := ""
	if named.Obj().Pkg() != nil {
		p = named.Obj().Pkg().Path()
	}
	return strings.Join([]string{p, k + g, scope}, "|")
}

// ProtoGen is a generator WITHOUT a custom New: gengo must build a zero instance per package with
// reflect.New. The prototype that is registered carries non-zero state on purpose.
type ProtoGen struct {
	Dirty   bool
	Counter int
	Seen    map[string]bool
}

func (*ProtoGen) Name() string { return "proto" }

func (g *ProtoGen) GenerateType(c gengo.Context, named *types.Named) error {
	Current.Add(Event{Kind: "type", Pkg: pkgOf(c), Gen: "proto", Name: named.Obj().Name(), Detail: TypeFingerprint(named)})
	if g.Seen == nil {
		g.Seen = map[string]bool{}
	}
	first := g.Counter == 0
	g.Counter++
	// everything below depends on the instance state: a leaked instance changes the output
	if g.Dirty {
		c.RenderT("// proto: DIRTY prototype state leaked into this package\n")
	}
	if first {
		c.RenderT("// proto helper (once per instance)\nfunc protoHelper() int { return 1 }\n\n")
	}
	if g.Seen[named.Obj().Name()] {
		c.RenderT("// proto: already seen @n\n", snippetBlockArg("n", named.Obj().Name()))
		return nil
	}
	g.Seen[named.Obj().Name()] = true
	c.RenderT("// proto #@i saw @n\nconst _ = \"proto:@n\"\n\n", snippetBlockArg("i", fmt.Sprint(g.Counter)), snippetBlockArg("n", named.Obj().Name()))
	return nil
}

func snippetBlockArg(name, text string) snippet.TArg {
	return snippet.Arg(name, snippet.Block(text))
}
