// Package synth generates synthetic Go packages that mix every kind of declaration the loader and the
// dispatcher have to tell apart: defined structs / scalars / funcs / interfaces, aliases, generics,
// function-local types and constants (fresh and clashing names), type parameters shadowing package
// types, grouped specs, methods with value / pointer / alias receivers, several files, tags at
// package-doc and declaration level.
package synth

import (
	"fmt"
	"math/rand"
	"sort"
	"strings"
)

// TypeDecl describes one package-level type declaration the generator wrote.
type TypeDecl struct {
	Name    string
	Kind    string // struct scalar func interface map slice alias generic-struct generic-alias
	IsAlias bool
	Generic bool
	// DeclTags: tag lines placed in the declaration's doc comment (key -> values in order).
	DeclTags map[string][]string
	// Decoys: tags placed where they must have NO effect (detached comment, previous line's trailing comment).
	Decoys  []string
	File    string
	Grouped bool
	Methods []Method
}

type Method struct {
	Name    string
	Ptr     bool
	ViaName string // receiver spelled through this alias ("" = the type itself)
}

type Package struct {
	Name      string
	Dir       string // relative dir in module
	Path      string
	Files     map[string]string // file name -> source
	PkgTags   map[string][]string
	Types     []*TypeDecl
	LocalTyps []string // names of function-local types
	TypeParms []string // names of type parameters
	LocalCons []string
	Consts    []string
	Funcs     []string
	Imports   []string
}

func (p *Package) Type(name string) *TypeDecl {
	for _, t := range p.Types {
		if t.Name == name {
			return t
		}
	}
	return nil
}

type Opts struct {
	NTypes int
	// TagKeys: candidate tag keys for declaration/package level (e.g. gengo:a, gengo:ab, gengo:a:b ...)
	TagKeys []string
	// TagValues: candidate values
	TagValues []string
	// Imports: module-local import paths this package may import (must already exist); name -> path
	Imports []string
	// NoDecoys disables trailing/detached decoy tags (for checks that run before the D14 repair is relevant)
	NoDecoys bool
	// Methods: generate methods
	Methods bool
	// Clash: generate function-local declarations / type parameters that share names with package-level ones
	Clash bool
	// PkgTagProb: probability (0..100) of a package-level tag per key
	PkgTagProb int
	// Docs: add free doc text
	Docs bool
}

type gen struct {
	lineDirs int
	r    *rand.Rand
	o    Opts
	p    *Package
	bufs map[string]*strings.Builder
	n    int
	// untwinned: exported type names that have no lower-case twin yet
	untwinned []string
}

func (g *gen) w(file, s string, a ...any) {
	b := g.bufs[file]
	fmt.Fprintf(b, s, a...)
	b.WriteString("\n")
}

func (g *gen) tagLines(ind string, t *TypeDecl) []string {
	var out []string
	for _, k := range g.o.TagKeys {
		switch g.r.Intn(5) {
		case 0:
			v := g.o.TagValues[g.r.Intn(len(g.o.TagValues))]
			if v == "" {
				out = append(out, fmt.Sprintf("%s// +%s", ind, k))
			} else {
				out = append(out, fmt.Sprintf("%s// +%s=%s", ind, k, v))
			}
			t.DeclTags[k] = append(t.DeclTags[k], v)
		}
	}
	return out
}

func (g *gen) decoy(k string) string {
	v := g.o.TagValues[g.r.Intn(len(g.o.TagValues))]
	if v == "" {
		return "+" + k
	}
	return "+" + k + "=" + v
}

// Generate builds one package.
func Generate(r *rand.Rand, name, dir, path string, o Opts) *Package {
	g := &gen{r: r, o: o, bufs: map[string]*strings.Builder{}}
	p := &Package{Name: name, Dir: dir, Path: path, Files: map[string]string{}, PkgTags: map[string][]string{}}
	g.p = p
	files := []string{"a.go", "b.go"}
	for _, f := range files {
		g.bufs[f] = &strings.Builder{}
	}
	// package doc (only in doc.go so that two files never carry conflicting package tags)
	doc := &strings.Builder{}
	g.bufs["doc.go"] = doc
	if o.Docs {
		g.w("doc.go", "// Package %s is synthetic.", name)
	}
	// package tags: every key at most once, most in doc.go, some in the package doc comment of a.go (the package's
	// tags are those of ALL its files' package docs; no key sits in two files, so no precedence question arises)
	var aDoc []string
	for _, k := range o.TagKeys {
		if g.r.Intn(100) < o.PkgTagProb {
			v := o.TagValues[g.r.Intn(len(o.TagValues))]
			line := "// +" + k
			if v != "" {
				line += "=" + v
			}
			if g.r.Intn(3) == 0 {
				aDoc = append(aDoc, line)
			} else {
				g.w("doc.go", "%s", line)
			}
			p.PkgTags[k] = append(p.PkgTags[k], v)
		}
	}
	g.w("doc.go", "package %s", name)
	if len(aDoc) > 0 || g.r.Intn(2) == 0 {
		// (a plain package comment without tags in a.go is the other half: it must not hide doc.go's tags)
		g.w("a.go", "// Package %s, part a.", name)
		for _, l := range aDoc {
			g.w("a.go", "%s", l)
		}
	}

	for _, f := range files {
		if f == "b.go" {
			// a licence header and a build constraint above the package clause (not the package doc: a blank line follows)
			g.w(f, "// Copyright of the synthetic authors.\n// Use as you like.\n\n//go:build !synth_never\n")
		}
		g.w(f, "package %s\n", name)
		if f == "a.go" && len(o.Imports) > 0 {
			g.w(f, "import (")
			for i, ip := range o.Imports {
				g.w(f, "\tdep%d %q", i, ip)
				p.Imports = append(p.Imports, ip)
			}
			g.w(f, ")\n")
			for i := range o.Imports {
				g.w(f, "var _ dep%d.Anchor", i)
			}
			g.w(f, "")
		}
	}
	g.w("a.go", "// Anchor is referenced by importers.\ntype Anchor struct{ N int }\n")
	anchor := &TypeDecl{Name: "Anchor", Kind: "struct", DeclTags: map[string][]string{}, File: "a.go"}
	p.Types = append(p.Types, anchor)

	kinds := []string{"struct", "scalar", "func", "interface", "map", "slice", "alias", "generic-struct", "alias-foreign", "struct", "scalar"}
	i := 0
	for i < o.NTypes {
		f := files[g.r.Intn(len(files))]
		if g.r.Intn(4) == 0 && i+2 <= o.NTypes {
			// grouped specs
			g.w(f, "// group doc carries no tags\ntype (")
			k := 2 + g.r.Intn(2)
			for j := 0; j < k && i < o.NTypes; j++ {
				g.typeSpec(f, kinds[g.r.Intn(len(kinds))], true)
				i++
			}
			g.w(f, ")\n")
			continue
		}
		if g.r.Intn(12) == 0 {
			// a //line directive (sources generated by goyacc, templates, cgo): every position after it is reported
			// under another file name and line (distinct targets, far apart: no two lines collide); declarations,
			// their docs and tags keep their meaning
			g.lineDirs++
			g.w(f, "//line %s_synth%d.y:%d\n", name, g.lineDirs, 10000*g.lineDirs)
		}
		g.typeSpec(f, kinds[g.r.Intn(len(kinds))], false)
		i++
	}
	// constants, vars, functions
	for j := 0; j < 3; j++ {
		c := fmt.Sprintf("C%d", j)
		g.w("b.go", "const %s = %d", c, j)
		p.Consts = append(p.Consts, c)
	}
	g.w("b.go", "const (\n\tCG1 = \"x\"\n\tCG2 = iota\n)\n")
	p.Consts = append(p.Consts, "CG1", "CG2")
	g.w("b.go", "func init() {}\n\nfunc init() {}\n\nfunc _() {}\n")
	// functions with local declarations
	names := make([]string, 0, len(p.Types))
	for _, t := range p.Types {
		names = append(names, t.Name)
	}
	for j := 0; j < 4; j++ {
		fn := fmt.Sprintf("Fn%d", j)
		p.Funcs = append(p.Funcs, fn)
		g.w("b.go", "func %s() int {", fn)
		// fresh local type and const
		lt := fmt.Sprintf("local%d", j)
		g.w("b.go", "\ttype %s struct{ v int }", lt)
		g.w("b.go", "\tconst lc%d = %d", j, j)
		g.w("b.go", "\t_ = %s{}", lt)
		p.LocalTyps = append(p.LocalTyps, lt)
		p.LocalCons = append(p.LocalCons, fmt.Sprintf("lc%d", j))
		if o.Clash && len(names) > 0 {
			// local type / const sharing a name with package-level objects (different kind so the winner is observable)
			n := names[g.r.Intn(len(names))]
			g.w("b.go", "\t{\n\t\ttype %s [%d]uint8\n\t\tvar x %s\n\t\t_ = x\n\t}", n, 7+j, n)
			p.LocalTyps = append(p.LocalTyps, n)
			cn := p.Consts[g.r.Intn(len(p.Consts))]
			g.w("b.go", "\t{\n\t\tconst %s = \"local-%d\"\n\t\t_ = %s\n\t}", cn, j, cn)
			p.LocalCons = append(p.LocalCons, cn)
			// a local type named like a package-level function and constant
			g.w("b.go", "\t{\n\t\ttype C0 struct{}\n\t\t_ = C0{}\n\t}")
			p.LocalTyps = append(p.LocalTyps, "C0")
			// a local INTERFACE type with a method of its own, named like a package-level type (the type checker records
			// that method with the local type as receiver), and a local struct type embedding it
			ln := names[g.r.Intn(len(names))]
			g.w("b.go", "\t{\n\t\ttype %s interface{ LocalOnly%d() int }\n\t\tvar li %s\n\t\t_ = li\n\t}", ln, j, ln)
			p.LocalTyps = append(p.LocalTyps, ln)
		}
		g.w("b.go", "\treturn lc%d\n}\n", j)
	}
	// local types and constants inside function LITERALS that are not inside a func declaration: the initialiser of a
	// package-level variable, a method value stored in a var, a composite literal's field (seeded change C06-n: "local"
	// decided by "the enclosing top-level declaration is a FuncDecl")
	g.w("b.go", "var initialised = func() int {\n\ttype localInVarFuncLit struct{ v int }\n\tconst lcVar = 41\n\t_ = localInVarFuncLit{}\n\treturn lcVar\n}()\n")
	g.w("b.go", "var handlers = map[string]func() any{\n\t\"a\": func() any {\n\t\ttype localInMapLit struct{}\n\t\treturn localInMapLit{}\n\t},\n}\n")
	p.LocalTyps = append(p.LocalTyps, "localInVarFuncLit", "localInMapLit")
	p.LocalCons = append(p.LocalCons, "lcVar")
	if o.Clash && len(names) > 0 {
		n := names[g.r.Intn(len(names))]
		g.w("b.go", "var _ = func() int {\n\ttype %s [3]uint16\n\tvar x %s\n\treturn len(x)\n}()\n", n, n)
		p.LocalTyps = append(p.LocalTyps, n)
	}
	if o.Clash && len(names) > 0 {
		// generic function whose type parameter shadows a package-level type
		n := names[g.r.Intn(len(names))]
		g.w("b.go", "func Shadow[%s any](v %s) %s { return v }\n", n, n, n)
		p.Funcs = append(p.Funcs, "Shadow")
		p.TypeParms = append(p.TypeParms, n)
		// generic type whose type parameter shadows another package-level type
		n2 := names[g.r.Intn(len(names))]
		g.w("b.go", "type ShadowBox[%s any] struct{ V %s }\n", n2, n2)
		p.Types = append(p.Types, &TypeDecl{Name: "ShadowBox", Kind: "generic-struct", Generic: true, DeclTags: map[string][]string{}, File: "b.go"})
		p.TypeParms = append(p.TypeParms, n2)
	}
	// comments after the last declaration of a file
	g.w("b.go", "\n// Notes after the last declaration:\n// nothing follows.")
	g.w("a.go", "\n/* closing remark of a.go */")
	for f, b := range g.bufs {
		p.Files[f] = b.String()
	}
	sort.Strings(p.Consts)
	return p
}

func (g *gen) typeSpec(f, kind string, grouped bool) {
	g.n++
	name := fmt.Sprintf("T%d", g.n)
	if g.r.Intn(5) == 0 {
		name = fmt.Sprintf("t%d", g.n) // unexported
	}
	// case twins: an unexported type whose name differs from an earlier exported one only in case (T7 / t7) - any
	// ordering or table keyed case-insensitively ties on them
	if len(g.untwinned) > 0 && g.r.Intn(5) == 0 {
		k := g.r.Intn(len(g.untwinned))
		name = "t" + g.untwinned[k][1:]
		g.untwinned = append(g.untwinned[:k], g.untwinned[k+1:]...)
	} else if name[0] == 'T' {
		g.untwinned = append(g.untwinned, name)
	}
	t := &TypeDecl{Name: name, Kind: kind, DeclTags: map[string][]string{}, File: f, Grouped: grouped}
	ind := ""
	kw := "type "
	if grouped {
		ind, kw = "\t", "\t"
	}
	// decoys: a detached comment with tags (blank line between), must have no effect
	if !g.o.NoDecoys && len(g.o.TagKeys) > 0 && g.r.Intn(4) == 0 {
		d := g.decoy(g.o.TagKeys[g.r.Intn(len(g.o.TagKeys))])
		g.w(f, "%s// %s\n", ind, d)
		t.Decoys = append(t.Decoys, "detached:"+d)
	}
	// decoy: trailing comment with a tag on the previous line (a var spec), directly above an undocumented declaration
	wantDecoy := !g.o.NoDecoys && len(g.o.TagKeys) > 0 && g.r.Intn(4) == 0
	var lines []string
	if !wantDecoy {
		lines = g.tagLines(ind, t)
	}
	if wantDecoy {
		d := g.decoy(g.o.TagKeys[g.r.Intn(len(g.o.TagKeys))])
		multi := g.r.Intn(2) == 0
		switch {
		case grouped && multi:
			// the tag comment trails the CLOSING line of a multi-line spec
			g.n++
			prev := fmt.Sprintf("PrevM%d", g.n)
			g.w(f, "\t%s struct {\n\t\tA int\n\t} // %s", prev, d)
			g.p.Types = append(g.p.Types, &TypeDecl{Name: prev, Kind: "struct", DeclTags: map[string][]string{}, File: f, Grouped: true})
		case grouped:
			g.n++
			prev := fmt.Sprintf("Prev%d", g.n)
			g.w(f, "\t%s int // %s", prev, d)
			g.p.Types = append(g.p.Types, &TypeDecl{Name: prev, Kind: "scalar", DeclTags: map[string][]string{}, File: f, Grouped: true})
		case multi && g.r.Intn(2) == 0:
			g.n++
			prev := fmt.Sprintf("PrevM%d", g.n)
			g.w(f, "type %s struct {\n\tA int\n} // %s", prev, d)
			g.p.Types = append(g.p.Types, &TypeDecl{Name: prev, Kind: "struct", DeclTags: map[string][]string{}, File: f})
		case multi:
			g.w(f, "var prevm%d = []int{\n\t1,\n\t2,\n} // %s", g.n, d)
		default:
			g.w(f, "var prev%d int // %s", g.n, d)
		}
		if multi {
			t.Decoys = append(t.Decoys, "prev-trailing-multiline:"+d)
		} else {
			t.Decoys = append(t.Decoys, "prev-trailing:"+d)
		}
	} else {
		if !grouped && len(lines) > 0 && g.r.Intn(4) == 0 {
			// the same tags inside a multi-line block comment (unindented, ends on the line above the declaration)
			g.w(f, "/*")
			g.w(f, "%s is documented by a block comment.", name)
			for _, l := range lines {
				g.w(f, "%s", strings.TrimPrefix(strings.TrimSpace(l), "// "))
			}
			g.w(f, "*/")
		} else {
			if g.o.Docs && g.r.Intn(2) == 0 {
				g.w(f, "%s// %s does something.", ind, name)
			}
			for _, l := range lines {
				g.w(f, "%s", l)
			}
		}
	}
	switch kind {
	case "struct":
		g.w(f, "%s%s struct {\n%s\tA int\n%s\tB string\n%s}", kw, name, ind, ind, ind)
	case "scalar":
		g.w(f, "%s%s %s", kw, name, []string{"int", "string", "float64", "bool"}[g.r.Intn(4)])
	case "func":
		g.w(f, "%s%s func(int) error", kw, name)
	case "interface":
		g.w(f, "%s%s interface {\n%s\tM%d() int\n%s\tN%d()\n%s}", kw, name, ind, g.n, ind, g.n, ind)
		t.Methods = append(t.Methods, Method{Name: fmt.Sprintf("M%d", g.n)}, Method{Name: fmt.Sprintf("N%d", g.n)})
	case "map":
		g.w(f, "%s%s map[string]int", kw, name)
	case "slice":
		g.w(f, "%s%s []string", kw, name)
	case "alias":
		t.IsAlias = true
		g.w(f, "%s%s = Anchor", kw, name)
	case "alias-foreign":
		t.IsAlias = true
		g.w(f, "%s%s = error", kw, name)
	case "generic-struct":
		t.Generic = true
		g.w(f, "%s%s[K comparable, V any] struct {\n%s\tM map[K]V\n%s}", kw, name, ind, ind)
	}
	g.p.Types = append(g.p.Types, t)
	if !grouped {
		g.w(f, "")
		g.methods(f, t)
	} else {
		// methods of grouped types are emitted into the other file to keep the group contiguous
		other := "a.go"
		if f == "a.go" {
			other = "b.go"
		}
		g.methods(other, t)
	}
}

func (g *gen) methods(f string, t *TypeDecl) {
	if !g.o.Methods || t.IsAlias || t.Kind == "interface" {
		return
	}
	recv := t.Name
	if t.Generic {
		recv = t.Name + "[K, V]"
	}
	n := g.r.Intn(4)
	for i := 0; i < n; i++ {
		m := Method{Name: fmt.Sprintf("Do%d", i), Ptr: g.r.Intn(2) == 0}
		r := recv
		if !t.Generic && g.r.Intn(3) == 0 {
			// receiver spelled through an alias: PA = *T; (x PA) | A = T; (x *A) | A2 = A = T; (x *A2) / (x A2) | A = T; (x A)
			if m.Ptr && g.r.Intn(2) == 0 {
				al := fmt.Sprintf("A%s%d", t.Name, i)
				g.w(f, "type %s = %s\n", al, t.Name)
				g.p.Types = append(g.p.Types, &TypeDecl{Name: al, Kind: "alias", IsAlias: true, DeclTags: map[string][]string{}, File: f})
				if g.r.Intn(2) == 0 {
					al2 := al + "x"
					g.w(f, "type %s = %s\n", al2, al)
					g.p.Types = append(g.p.Types, &TypeDecl{Name: al2, Kind: "alias", IsAlias: true, DeclTags: map[string][]string{}, File: f})
					al = al2
				}
				g.w(f, "func (x *%s) %s() {}\n", al, m.Name)
				m.ViaName = "*" + al
				t.Methods = append(t.Methods, m)
				continue
			}
			if m.Ptr {
				al := fmt.Sprintf("PA%s%d", t.Name, i)
				g.w(f, "type %s = *%s\n", al, t.Name)
				g.p.Types = append(g.p.Types, &TypeDecl{Name: al, Kind: "alias", IsAlias: true, DeclTags: map[string][]string{}, File: f})
				g.w(f, "func (x %s) %s() {}\n", al, m.Name)
				m.ViaName = al
				t.Methods = append(t.Methods, m)
				continue
			}
			al := fmt.Sprintf("A%s%d", t.Name, i)
			g.w(f, "type %s = %s\n", al, t.Name)
			g.p.Types = append(g.p.Types, &TypeDecl{Name: al, Kind: "alias", IsAlias: true, DeclTags: map[string][]string{}, File: f})
			m.ViaName = al
			r = al
		}
		if m.Ptr {
			g.w(f, "func (x *%s) %s() {}\n", r, m.Name)
		} else {
			g.w(f, "func (x %s) %s() {}\n", r, m.Name)
		}
		t.Methods = append(t.Methods, m)
	}
}
