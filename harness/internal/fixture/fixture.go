// Package fixture builds scratch Go modules for runs of the real gengo code.
package fixture

import (
	"crypto/sha256"
	"encoding/hex"
	"fmt"
	"io/fs"
	"os"
	"path/filepath"
	"sort"
	"strings"
	"sync"
)

var envOnce sync.Once

// CleanGoEnv prepares the process environment for `go list` runs on scratch modules: GOFLAGS is
// cleared (under -mod=mod `go list` rewrites a scratch go.mod, which would be a false alarm for the
// tree-snapshot oracles); the module proxy stays off; the toolchain stays local.
func CleanGoEnv() {
	envOnce.Do(func() {
		os.Setenv("GOFLAGS", "")
		os.Setenv("GOPROXY", "off")
		os.Setenv("GOTOOLCHAIN", "local")
		os.Setenv("GOSUMDB", "off")
		os.Setenv("GOWORK", "off")
		os.Unsetenv("GO111MODULE")
	})
}

type Module struct {
	Root      string
	Path      string
	GoVersion string
}

// New creates <scratch>/<name>/ with a go.mod.
func New(scratch, name, modPath, goVersion string, extraGoMod ...string) (*Module, error) {
	CleanGoEnv()
	root := filepath.Join(scratch, name)
	if err := os.MkdirAll(root, 0o755); err != nil {
		return nil, err
	}
	m := &Module{Root: root, Path: modPath, GoVersion: goVersion}
	gm := fmt.Sprintf("module %s\n\ngo %s\n", modPath, goVersion)
	for _, e := range extraGoMod {
		gm += e
	}
	if err := m.Write("go.mod", gm); err != nil {
		return nil, err
	}
	return m, nil
}

func (m *Module) Write(rel, content string) error {
	p := filepath.Join(m.Root, rel)
	if err := os.MkdirAll(filepath.Dir(p), 0o755); err != nil {
		return err
	}
	return os.WriteFile(p, []byte(content), 0o644)
}

func (m *Module) MustWrite(rel, content string) {
	if err := m.Write(rel, content); err != nil {
		panic(err)
	}
}

func (m *Module) Read(rel string) (string, bool) {
	b, err := os.ReadFile(filepath.Join(m.Root, rel))
	if err != nil {
		return "", false
	}
	return string(b), true
}

func (m *Module) Remove() { _ = os.RemoveAll(m.Root) }

// Entry of a tree snapshot.
type Entry struct {
	Mode string
	Sum  string
}

// Snapshot hashes every file under the module root (symlinks recorded by target, not followed).
func (m *Module) Snapshot() map[string]Entry {
	return SnapshotDir(m.Root)
}

func SnapshotDir(root string) map[string]Entry {
	out := map[string]Entry{}
	_ = filepath.WalkDir(root, func(p string, d fs.DirEntry, err error) error {
		if err != nil {
			return nil
		}
		rel, _ := filepath.Rel(root, p)
		if rel == "." {
			return nil
		}
		info, err := d.Info()
		if err != nil {
			return nil
		}
		switch {
		case info.Mode()&os.ModeSymlink != 0:
			t, _ := os.Readlink(p)
			out[rel] = Entry{Mode: "symlink", Sum: t}
		case d.IsDir():
			out[rel+"/"] = Entry{Mode: "dir"}
		default:
			b, err := os.ReadFile(p)
			if err != nil {
				out[rel] = Entry{Mode: info.Mode().String(), Sum: "unreadable"}
				return nil
			}
			h := sha256.Sum256(b)
			out[rel] = Entry{Mode: info.Mode().Perm().String(), Sum: hex.EncodeToString(h[:8])}
		}
		return nil
	})
	return out
}

// Diff lists paths created / changed / deleted between two snapshots.
func Diff(before, after map[string]Entry) (created, changed, deleted []string) {
	for p, a := range after {
		b, ok := before[p]
		if !ok {
			created = append(created, p)
		} else if a != b {
			changed = append(changed, p)
		}
	}
	for p := range before {
		if _, ok := after[p]; !ok {
			deleted = append(deleted, p)
		}
	}
	sort.Strings(created)
	sort.Strings(changed)
	sort.Strings(deleted)
	return
}

// CopyTree copies a directory tree (regular files, dirs, symlinks).
func CopyTree(src, dst string) error {
	return filepath.WalkDir(src, func(p string, d fs.DirEntry, err error) error {
		if err != nil {
			return err
		}
		rel, _ := filepath.Rel(src, p)
		target := filepath.Join(dst, rel)
		info, err := d.Info()
		if err != nil {
			return err
		}
		switch {
		case info.Mode()&os.ModeSymlink != 0:
			t, err := os.Readlink(p)
			if err != nil {
				return err
			}
			return os.Symlink(t, target)
		case d.IsDir():
			return os.MkdirAll(target, 0o755)
		default:
			b, err := os.ReadFile(p)
			if err != nil {
				return err
			}
			return os.WriteFile(target, b, info.Mode().Perm())
		}
	})
}

// Indent is a tiny helper for reports.
func Indent(s string) string { return "    " + strings.ReplaceAll(s, "\n", "\n    ") }
