package fixture

import (
	"os"
	"path/filepath"
	"strings"
	"syscall"
	"unsafe"
)

// FSEvent is one inotify event under a watched tree.
type FSEvent struct {
	Rel  string // path relative to the watched root
	Mask uint32
}

func (e FSEvent) What() string {
	var w []string
	for _, m := range []struct {
		bit  uint32
		name string
	}{{syscall.IN_CREATE, "create"}, {syscall.IN_DELETE, "delete"}, {syscall.IN_MOVED_FROM, "moved-from"}, {syscall.IN_MOVED_TO, "moved-to"},
		{syscall.IN_MODIFY, "modify"}, {syscall.IN_ATTRIB, "attrib"}, {syscall.IN_CLOSE_WRITE, "close-write"}} {
		if e.Mask&m.bit != 0 {
			w = append(w, m.name)
		}
	}
	return strings.Join(w, "+")
}

// Watcher records every creation, deletion, rename, modification and attribute change of a directory entry under a
// tree while it is open - transient files (created and renamed away or removed within the run) included, which a
// before/after snapshot cannot see.
type Watcher struct {
	fd   int
	root string
	dirs map[int32]string // watch descriptor -> dir relative to root
}

const watchMask = syscall.IN_CREATE | syscall.IN_DELETE | syscall.IN_MOVED_FROM | syscall.IN_MOVED_TO | syscall.IN_MODIFY | syscall.IN_ATTRIB | syscall.IN_CLOSE_WRITE

// Watch starts watching every directory that exists under root now.
func Watch(root string) (*Watcher, error) {
	fd, err := syscall.InotifyInit1(syscall.IN_NONBLOCK | syscall.IN_CLOEXEC)
	if err != nil {
		return nil, err
	}
	w := &Watcher{fd: fd, root: root, dirs: map[int32]string{}}
	err = filepath.Walk(root, func(p string, info os.FileInfo, err error) error {
		if err != nil || !info.IsDir() {
			return nil
		}
		wd, err := syscall.InotifyAddWatch(fd, p, watchMask)
		if err != nil {
			return err
		}
		rel, _ := filepath.Rel(root, p)
		w.dirs[int32(wd)] = rel
		return nil
	})
	if err != nil {
		syscall.Close(fd)
		return nil, err
	}
	return w, nil
}

// Stop drains the queue and closes the watcher. overflow reports that the kernel dropped events.
func (w *Watcher) Stop() (events []FSEvent, overflow bool) {
	defer syscall.Close(w.fd)
	buf := make([]byte, 1<<16)
	for {
		n, err := syscall.Read(w.fd, buf)
		if n <= 0 || err != nil {
			break
		}
		for off := 0; off+syscall.SizeofInotifyEvent <= n; {
			ev := (*syscall.InotifyEvent)(unsafe.Pointer(&buf[off]))
			nameLen := int(ev.Len)
			name := ""
			if nameLen > 0 {
				b := buf[off+syscall.SizeofInotifyEvent : off+syscall.SizeofInotifyEvent+nameLen]
				name = strings.TrimRight(string(b), "\x00")
			}
			off += syscall.SizeofInotifyEvent + nameLen
			if ev.Mask&syscall.IN_Q_OVERFLOW != 0 {
				overflow = true
				continue
			}
			dir, ok := w.dirs[ev.Wd]
			if !ok || name == "" {
				continue
			}
			events = append(events, FSEvent{Rel: filepath.Join(dir, name), Mask: ev.Mask})
		}
	}
	return events, overflow
}
