// Package firstuse is the body of the stand-alone first-use binary (cmd/firstuse): a process that links ONLY the
// package under observation (no gengo, no namer - their init functions already call into camelcase), so that the
// very first calls into that package are made concurrently by G goroutines leaving a barrier together.
package firstuse

import (
	"encoding/json"
	"fmt"
	"os"
	"os/exec"
	"runtime"
	"strings"
	"sync"

	"github.com/octohelm/gengo/pkg/camelcase"
	"github.com/octohelm/gengo/pkg/inflector"
)

type Arg struct {
	Kind   string   `json:"kind"` // camelcase | inflector
	Procs  int      `json:"procs"`
	G      int      `json:"g"`
	Inputs []string `json:"inputs"`
	// Sequential: one goroutine walks all inputs once (Reverse: from the last to the first); the output has one
	// "goroutine". Used with very many DISTINCT inputs: whatever a process memoises about earlier inputs must not
	// change the answer for a later one, so two processes that see the inputs in opposite orders must agree.
	Sequential bool `json:"sequential,omitempty"`
	Reverse    bool `json:"reverse,omitempty"`
}

// Funcs: what is called per input, in this order; the output has one string per function.
var Funcs = map[string][]struct {
	Name string
	F    func(string) string
}{
	"camelcase": {
		{"LowerSnakeCase", camelcase.LowerSnakeCase},
		{"UpperSnakeCase", camelcase.UpperSnakeCase},
		{"LowerKebabCase", camelcase.LowerKebabCase},
		{"UpperKebabCase", camelcase.UpperKebabCase},
		{"LowerCamelCase", camelcase.LowerCamelCase},
		{"UpperCamelCase", camelcase.UpperCamelCase},
		{"Split", func(s string) string { return strings.Join(camelcase.Split(s), "\x01") }},
	},
	"inflector": {
		{"Pluralize", inflector.Pluralize},
		{"Singularize", inflector.Singularize},
	},
}

func guard(f func(string) string, s string) (out string) {
	defer func() {
		if e := recover(); e != nil {
			out = fmt.Sprintf("\x00PANIC: %v", e)
		}
	}()
	return f(s)
}

// Sequential computes the reference answers in the calling process.
func Sequential(kind string, inputs []string) [][]string {
	out := make([][]string, len(inputs))
	for i, s := range inputs {
		for _, fn := range Funcs[kind] {
			out[i] = append(out[i], guard(fn.F, s))
		}
	}
	return out
}

// Main: read the argument file, run, write <argFile>.out ([goroutine][input][function]string).
func Main(argFile string) {
	b, err := os.ReadFile(argFile)
	if err != nil {
		panic(err)
	}
	var a Arg
	if err := json.Unmarshal(b, &a); err != nil {
		panic(err)
	}
	if a.Sequential {
		fns := Funcs[a.Kind]
		res := make([][]string, len(a.Inputs))
		for k := range a.Inputs {
			i := k
			if a.Reverse {
				i = len(a.Inputs) - 1 - k
			}
			for _, fn := range fns {
				res[i] = append(res[i], guard(fn.F, a.Inputs[i]))
			}
		}
		ob, _ := json.Marshal([][][]string{res})
		_ = os.WriteFile(argFile+".out", ob, 0o644)
		return
	}
	runtime.GOMAXPROCS(a.Procs)
	fns := Funcs[a.Kind]
	out := make([][][]string, a.G)
	start := make(chan struct{})
	var wg sync.WaitGroup
	for g := 0; g < a.G; g++ {
		out[g] = make([][]string, len(a.Inputs))
		wg.Add(1)
		go func(g int) {
			defer wg.Done()
			<-start
			for k := range a.Inputs {
				i := (k + g*7) % len(a.Inputs)
				o := make([]string, 0, len(fns))
				for range fns {
					o = append(o, "")
				}
				// goroutines start with different functions too
				for jj := range fns {
					j := (jj + g) % len(fns)
					o[j] = guard(fns[j].F, a.Inputs[i])
				}
				out[g][i] = o
			}
		}(g)
	}
	close(start)
	wg.Wait()
	ob, _ := json.Marshal(out)
	_ = os.WriteFile(argFile+".out", ob, 0o644)
}

// Child is the outcome of one child process.
type Child struct {
	Out     [][][]string // [goroutine][input][function]
	Races   int
	Log     string
	Crashed bool
	Err     string
}

// Run starts the stand-alone binary ($VERIF_FIRSTUSE, built with -race by the check driver) on the argument.
func Run(scratch, tag string, a Arg) Child {
	exe := os.Getenv("VERIF_FIRSTUSE")
	if a.Sequential {
		exe = os.Getenv("VERIF_FIRSTUSE_PLAIN") // no race detector: these runs are long and single-threaded
	}
	if exe == "" {
		return Child{Err: "VERIF_FIRSTUSE / VERIF_FIRSTUSE_PLAIN is not set (the check driver builds the first-use binaries)"}
	}
	argFile := scratch + "/firstuse-" + tag + ".json"
	ib, _ := json.Marshal(a)
	if err := os.WriteFile(argFile, ib, 0o644); err != nil {
		return Child{Err: err.Error()}
	}
	defer os.Remove(argFile)
	defer os.Remove(argFile + ".out")
	cmd := exec.Command(exe, argFile)
	cmd.Env = append(os.Environ(), "GORACE=halt_on_error=0")
	ob, err := cmd.CombinedOutput()
	c := Child{Log: string(ob), Races: strings.Count(string(ob), "WARNING: DATA RACE")}
	tb, rerr := os.ReadFile(argFile + ".out")
	if rerr != nil {
		c.Crashed = true
		c.Err = fmt.Sprintf("%v", err)
		return c
	}
	wantG := a.G
	if a.Sequential {
		wantG = 1
	}
	if uerr := json.Unmarshal(tb, &c.Out); uerr != nil || len(c.Out) != wantG {
		c.Err = "output unreadable"
	}
	return c
}

// Diff: one input whose answer depends on the order in which a process saw the inputs.
type Diff struct {
	Input, Func, Forward, Reverse string
}

// ManyDistinct runs two fresh processes over the same DISTINCT inputs, one forwards and one backwards, and returns
// the inputs on which they disagree (or that panicked).
func ManyDistinct(scratch, tag, kind string, inputs []string) (diffs []Diff, problem string) {
	var fw, bw Child
	var wg sync.WaitGroup
	wg.Add(2)
	go func() {
		defer wg.Done()
		fw = Run(scratch, tag+"-fw", Arg{Kind: kind, Inputs: inputs, Sequential: true})
	}()
	go func() {
		defer wg.Done()
		bw = Run(scratch, tag+"-bw", Arg{Kind: kind, Inputs: inputs, Sequential: true, Reverse: true})
	}()
	wg.Wait()
	for _, c := range []Child{fw, bw} {
		if c.Crashed || c.Err != "" {
			return nil, "child process failed: " + c.Err + " " + c.Log
		}
	}
	fns := Funcs[kind]
	for i, s := range inputs {
		for k, fn := range fns {
			a, b := fw.Out[0][i][k], bw.Out[0][i][k]
			if a != b || strings.HasPrefix(a, "\x00PANIC") {
				diffs = append(diffs, Diff{s, fn.Name, a, b})
			}
		}
	}
	return diffs, ""
}
