package specgen

import (
	// the repo's sample generators register themselves
	_ "github.com/octohelm/gengo/devpkg/deepcopygen"
	_ "github.com/octohelm/gengo/devpkg/partialstruct"
	_ "github.com/octohelm/gengo/devpkg/runtimedocgen"
)
