// Package specgen turns serialisable generator specifications into scripted gengo generators, and runs
// gengo either in-process or in a child process (needed for process-death faults and for strace).
package specgen

import (
	gengotypes "github.com/octohelm/gengo/pkg/types"
	"bufio"
	"bytes"
	"encoding/json"
	"go/ast"
	"net/url"
	"reflect"
	"slices"
	"sync"
	"errors"
	"fmt"
	"go/token"
	"go/types"
	"os"
	"os/exec"
	"path/filepath"
	"sort"
	"strings"
	"syscall"
	"time"

	"github.com/octohelm/gengo/pkg/gengo"
	"github.com/octohelm/gengo/pkg/gengo/snippet"

	"verif/fixtures/holder"
	"verif/internal/fixture"
	"verif/internal/pipeline"
)

// Shared snippet values, built once per process and rendered for every package (generators keep such snippets in
// package-level variables): whatever a snippet value remembers from an earlier rendering - a resolved name, a
// registered import - must not leak into the next file.
var (
	sharedExpose    = snippet.PkgExpose("fmt", "Sprintf")
	sharedExposeOf  = snippet.PkgExposeOf(bytes.Buffer{})
	sharedExposeFor = snippet.PkgExposeFor[bufio.Reader]("NewReader")
	sharedID        = snippet.ID("net/url.URL")
	sharedIDType    = snippet.ID(reflect.TypeFor[map[string]*time.Location]())
	sharedValue     = snippet.Value(url.URL{Host: "h"})
	sharedT         = snippet.T("// shared snippet values\nvar (\n\t_ = @a\n\t_ @b\n\t_ = @c\n\t_ @d\n\t_ @e\n\t_ = @f\n)\n\n",
		snippet.Arg("a", sharedExpose), snippet.Arg("b", sharedExposeOf), snippet.Arg("c", sharedExposeFor),
		snippet.Arg("d", sharedID), snippet.Arg("e", sharedIDType), snippet.Arg("f", sharedValue))
	sharedSprintf = snippet.Sprintf("var _ %T = %v\n\n", reflect.TypeFor[[]*sync.Mutex](), []*sync.Mutex(nil))
)

// renderShared renders the process-wide snippet VALUES into the current package's file.
func renderShared(c gengo.Context) {
	c.Render(sharedT)
	c.Render(sharedSprintf)
	c.Render(snippet.Snippets(slices.Values([]snippet.Snippet{snippet.Block("var _ = "), sharedExpose, snippet.Block("\n\n")})))
}

// Behav is what one generator does in one package.
type Behav struct {
	// Mode: render | nothing | skip | ignore-nothing | ignore-something | alias-only | alias-ignore-nothing |
	//       error | wrapped-skip | wrapped-ignore | skip-text-error | bad-syntax | defer-error | kill | kill-defer | panic
	Mode string `json:"mode"`
	// At: 0-based index of the GenerateType call (for error / bad-syntax / kill) or of the deferred callback
	// (defer-error / kill-defer) at which the fault happens; other calls render normally.
	At int `json:"at,omitempty"`
	// Defers: deferred callbacks registered per type (they render a marker).
	Defers int `json:"defers,omitempty"`
	// Salt is included in everything rendered.
	Salt string `json:"salt,omitempty"`
	// Imports: render a reference to these package paths (exercises the import block).
	Imports []string `json:"imports,omitempty"`
	// Probe: names looked up through Package.Type / Constant / Function by the "observe" mode.
	Probe []string `json:"probe,omitempty"`
	// Code: rendered verbatim after every type's marker (render mode).
	Code string `json:"code,omitempty"`
	// Others: in the error / bad-syntax modes, what is returned for the types other than At: "" nil, "ignore", "skip".
	Others string `json:"others,omitempty"`
}

type GenSpec struct {
	Name string `json:"name"`
	// Real: use the generator registered under this name in gengo's registry (deepcopy, runtimedoc, partialstruct).
	Real bool `json:"real,omitempty"`
	// Proto: use pipeline.ProtoGen (no custom New; the registered prototype carries non-zero state).
	Proto bool             `json:"proto,omitempty"`
	Alias bool             `json:"alias,omitempty"`
	Pkg   map[string]Behav `json:"pkg,omitempty"` // by package path
	Def   Behav            `json:"def"`
}

func (g GenSpec) For(pkg string) Behav {
	if b, ok := g.Pkg[pkg]; ok {
		return b
	}
	return g.Def
}

var ErrInjected = errors.New("injected generator failure")

type state struct {
	typeCalls  int
	deferCalls int
}

// Build creates the generators.
func Build(specs []GenSpec) []gengo.Generator {
	var out []gengo.Generator
	for _, gs := range specs {
		gs := gs
		if gs.Real {
			rg := gengo.GetRegisteredGenerators(gs.Name)
			if len(rg) != 1 {
				panic("generator not registered: " + gs.Name)
			}
			out = append(out, rg[0])
			continue
		}
		if gs.Proto {
			out = append(out, &pipeline.ProtoGen{Dirty: true, Counter: 41, Seen: map[string]bool{"Shared1": true}})
			continue
		}
		states := map[string]*state{}
		st := func(pkg string) *state {
			if s, ok := states[pkg]; ok {
				return s
			}
			s := &state{}
			states[pkg] = s
			return s
		}
		b := &pipeline.Behaviour{Name: gs.Name}
		render := func(c gengo.Context, bh Behav, name string) {
			c.RenderT("// @g @salt saw @n\nconst _ = \"@g|@n|@salt\"\n\n",
				snippet.Arg("g", snippet.Block(gs.Name)), snippet.Arg("salt", snippet.Block(bh.Salt)), snippet.Arg("n", snippet.Block(name)))
			multiImport(c, bh.Imports)
			for _, ip := range bh.Imports {
				c.RenderT("var _ @t\n\n", snippet.Arg("t", snippet.ID(ip)))
			}
			if bh.Code != "" {
				c.Render(snippet.Block(bh.Code + "\n\n"))
			}
		}
		b.OnType = func(c gengo.Context, named *types.Named, inst *pipeline.Instance) error {
			pkg := c.Package("").Pkg().Path()
			bh := gs.For(pkg)
			s := st(pkg)
			idx := s.typeCalls
			s.typeCalls++
			name := named.Obj().Name()
			for k := 0; k < bh.Defers; k++ {
				k := k
				c.Defer(func(c gengo.Context) error {
					di := s.deferCalls
					s.deferCalls++
					pipeline.Current.Add(pipeline.Event{Kind: "defer-run", Pkg: pkg, Gen: gs.Name, Name: fmt.Sprintf("%s/%d", name, k)})
					if bh.Mode == "defer-error" && di == bh.At {
						return fmt.Errorf("deferred callback %d: %w", di, ErrInjected)
					}
					if bh.Mode == "kill-defer" && di == bh.At {
						_ = syscall.Kill(os.Getpid(), syscall.SIGKILL)
						time.Sleep(time.Hour)
					}
					switch bh.Mode {
					case "nothing", "skip", "ignore-nothing", "alias-only", "alias-ignore-nothing", "wrapped-skip", "wrapped-ignore", "ignore-then-skip", "skip-then-ignore", "ignore-then-nil":
					default:
						c.RenderT("// deferred @n @k\n", snippet.Arg("n", snippet.Block(name)), snippet.Arg("k", snippet.Block(fmt.Sprint(k))))
					}
					return nil
				})
			}
			switch bh.Mode {
			case "observe":
				// the ordinal of this call within its per-package instance is part of the output: the order in which a
				// package's types are dispatched shows in the file's bytes (as it does for real generators that emit
				// helpers on first use), the order of packages does not
				c.RenderT("// @g: type call #@k of this instance\n", snippet.Arg("g", snippet.Block(gs.Name)), snippet.Arg("k", snippet.Block(fmt.Sprint(inst.Calls))))
				observe(c, bh, gs.Name, named)
			case "stateful":
				// everything here depends on per-instance state: a leaked instance changes the output
				if !inst.Helper {
					inst.Helper = true
					c.RenderT("// helper of @g, once per instance\nfunc helper@gid() int { return @n }\n\n", snippet.Arg("g", snippet.Block(gs.Name)), snippet.Arg("gid", snippet.Block(sanitize(gs.Name))), snippet.Arg("n", snippet.Block(fmt.Sprint(len(inst.Seen)))))
					renderShared(c)
				}
				if inst.Seen[name] {
					c.RenderT("// @g: @n already seen by this instance\n", snippet.Arg("g", snippet.Block(gs.Name)), snippet.Arg("n", snippet.Block(name)))
					return nil
				}
				inst.Seen[name] = true
				render(c, bh, name)
				c.RenderT("// @g call #@k of this instance\n\n", snippet.Arg("g", snippet.Block(gs.Name)), snippet.Arg("k", snippet.Block(fmt.Sprint(inst.Calls))))
			case "stateful-silent":
				// the instance's state changes, nothing is rendered (types the generator has nothing to say about): an
				// instance that rendered nothing is still a USED instance (seeded change C05-m parks and reuses it)
				inst.Helper = true
				inst.Seen[name] = true
				return gengo.ErrSkip
			case "analyze":
				// whole-package analysis through the universe-wide accessors, once per instance
				if !inst.Helper {
					inst.Helper = true
					analyze(c, gs.Name)
				}
			case "render", "defer-error", "kill-defer":
				render(c, bh, name)
			case "nothing", "alias-only", "alias-ignore-nothing":
			case "defer-only":
				// collect-then-emit: nothing is rendered here, everything in a deferred callback (registered once)
				if s.typeCalls == 1 {
					c.Defer(func(c gengo.Context) error {
						pipeline.Current.Add(pipeline.Event{Kind: "defer-run", Pkg: pkg, Gen: gs.Name, Name: "defer-only"})
						c.RenderT("// @g @salt saw (deferred) everything\nconst _ = \"@g|deferred|@salt\"\n\n",
							snippet.Arg("g", snippet.Block(gs.Name)), snippet.Arg("salt", snippet.Block(bh.Salt)))
						return nil
					})
				}
			case "alias-error":
				render(c, bh, name)
			case "skip":
				return gengo.ErrSkip
			case "ignore-then-skip":
				// ErrIgnore for the first type, ErrSkip for the later ones: nothing rendered, the ignore must stick
				if idx == 0 {
					return gengo.ErrIgnore
				}
				return gengo.ErrSkip
			case "skip-then-ignore":
				if idx == 0 {
					return gengo.ErrSkip
				}
				return gengo.ErrIgnore
			case "ignore-then-nil":
				if idx == 0 {
					return gengo.ErrIgnore
				}
			case "ignore-nothing":
				return gengo.ErrIgnore
			case "ignore-something":
				render(c, bh, name)
				return gengo.ErrIgnore
			case "wrapped-skip":
				return fmt.Errorf("wrapped: %w", gengo.ErrSkip)
			case "wrapped-ignore":
				return fmt.Errorf("wrapped: %w", gengo.ErrIgnore)
			case "skip-text-error":
				render(c, bh, name)
				if idx == bh.At {
					return errors.New("skip") // same text as ErrSkip, but a different error: must not be swallowed
				}
			case "error-early":
				// fails BEFORE rendering anything (with Defers 0 and At 0: nothing rendered, nothing deferred so far)
				if idx == bh.At {
					return fmt.Errorf("type %s: %w", name, ErrInjected)
				}
				render(c, bh, name)
			case "error":
				render(c, bh, name)
				if idx == bh.At {
					return fmt.Errorf("type %s: %w", name, ErrInjected)
				}
				switch bh.Others {
				case "ignore":
					return gengo.ErrIgnore
				case "skip":
					return gengo.ErrSkip
				}
			case "bad-syntax-tail":
				// the unparseable construct is the very LAST thing rendered (from the last registered deferred callback)
				// and does not end in a newline: the syntax error sits on the last line of the assembled source
				render(c, bh, name)
				if idx == bh.At {
					c.Defer(func(c gengo.Context) error {
						c.Render(snippet.Block([]string{"func Broken(", "\tvar (", "type T struct {", "var s = \"unterminated"}[bh.At%4]))
						return nil
					})
				}
			case "bad-syntax":
				render(c, bh, name)
				if idx == bh.At {
					c.RenderT([]string{"func broken( {\n", "var s = \"unterminated\n", "}\n", "type T struct {\n", "var x = 08\n", "func f() { return }}\n"}[bh.At%6])
				} else {
					switch bh.Others {
					case "ignore":
						return gengo.ErrIgnore
					case "skip":
						return gengo.ErrSkip
					}
				}
			case "kill":
				render(c, bh, name)
				if idx == bh.At {
					_ = syscall.Kill(os.Getpid(), syscall.SIGKILL)
					time.Sleep(time.Hour)
				}
			case "panic":
				if idx == bh.At {
					panic("injected panic")
				}
				render(c, bh, name)
			default:
				panic("unknown mode " + bh.Mode)
			}
			return nil
		}
		if gs.Alias {
			b.OnAlias = func(c gengo.Context, a *types.Alias, inst *pipeline.Instance) error {
				pkg := c.Package("").Pkg().Path()
				bh := gs.For(pkg)
				switch bh.Mode {
				case "stateful":
					// per-instance state is shared by the type and the alias path of one instance: a helper once per
					// instance, a seen-set, call ordinals
					name := "alias:" + a.Obj().Name()
					if !inst.Helper {
						inst.Helper = true
						c.RenderT("// helper of @g, once per instance (first reached through an alias)\nfunc helper@gid() int { return @n }\n\n", snippet.Arg("g", snippet.Block(gs.Name)), snippet.Arg("gid", snippet.Block(sanitize(gs.Name))), snippet.Arg("n", snippet.Block(fmt.Sprint(len(inst.Seen)))))
						renderShared(c)
					}
					if inst.Seen[name] {
						c.RenderT("// @g: @n already seen by this instance\n", snippet.Arg("g", snippet.Block(gs.Name)), snippet.Arg("n", snippet.Block(name)))
						return nil
					}
					inst.Seen[name] = true
					c.RenderT("// @g saw alias @n as call #@k of this instance (@s names seen)\n\n", snippet.Arg("g", snippet.Block(gs.Name)), snippet.Arg("n", snippet.Block(a.Obj().Name())), snippet.Arg("k", snippet.Block(fmt.Sprint(inst.Calls))), snippet.Arg("s", snippet.Block(fmt.Sprint(len(inst.Seen)))))
				case "stateful-silent":
					inst.Helper = true
					inst.Seen["alias:"+a.Obj().Name()] = true
					return nil
				case "alias-only", "render", "ignore-something":
					c.RenderT("// @g @salt saw alias @n\n\n", snippet.Arg("g", snippet.Block(gs.Name)), snippet.Arg("salt", snippet.Block(bh.Salt)), snippet.Arg("n", snippet.Block(a.Obj().Name())))
				case "alias-ignore-nothing":
					return gengo.ErrIgnore
				case "skip":
					return gengo.ErrSkip
				case "alias-error":
					return fmt.Errorf("alias %s: %w", a.Obj().Name(), ErrInjected)
				}
				return nil
			}
		}
		out = append(out, pipeline.New(b))
	}
	return out
}

// RendersSomething: does the behaviour leave a non-empty body (given that the package has types / aliases)?
func (b Behav) RendersSomething(hasTypes, hasAliases, isAliasGen bool) bool {
	switch b.Mode {
	case "render", "ignore-something":
		return hasTypes || (isAliasGen && hasAliases)
	case "defer-only":
		return hasTypes
	case "alias-only":
		return isAliasGen && hasAliases
	}
	return false
}

// Ignored: does the behaviour signal ErrIgnore without rendering?
func (b Behav) IgnoresWithoutOutput(hasTypes, hasAliases, isAliasGen bool) bool {
	switch b.Mode {
	case "ignore-nothing", "ignore-then-skip", "ignore-then-nil":
		return hasTypes
	case "skip-then-ignore":
		return hasTypes // every package of the layouts has at least two defined types
	case "alias-ignore-nothing":
		return isAliasGen && hasAliases
	}
	return false
}

// ---------------------------------------------------------------------------------------
// runs

type Args struct {
	Globals            map[string][]string `json:"globals,omitempty"`
	Entrypoint         []string            `json:"entrypoint"`
	OutputFileBaseName string              `json:"base"`
	All                bool                `json:"all"`
	Force              bool                `json:"force"`
}

func (a Args) Gengo() *gengo.GeneratorArgs {
	return &gengo.GeneratorArgs{Globals: a.Globals, Entrypoint: a.Entrypoint, OutputFileBaseName: a.OutputFileBaseName, All: a.All, Force: a.Force}
}

// Fault: kill the process at the nth hit of a hook point.
type Fault struct {
	Point string `json:"point,omitempty"`
	Nth   int    `json:"nth,omitempty"`
}

type RunSpec struct {
	Dir   string    `json:"dir"`
	Args  Args      `json:"args"`
	Gens  []GenSpec `json:"gens"`
	Fault Fault     `json:"fault,omitempty"`
	Out   string    `json:"out"`
	// Workspace: the run happens inside a go.work workspace (child processes only: GOWORK is off everywhere else)
	Workspace bool `json:"workspace,omitempty"`
}

type Result struct {
	Err    string           `json:"err,omitempty"`
	Failed bool             `json:"failed"`
	Panic  string           `json:"panic,omitempty"`
	Events []pipeline.Event `json:"events"`
	// child only
	Died       bool   `json:"died,omitempty"`
	ExitStatus string `json:"exit_status,omitempty"`
	Stderr     string `json:"stderr,omitempty"`
}

// RunInProcess executes gengo in this process.
func RunInProcess(dir string, args Args, gens []GenSpec) Result {
	out := pipeline.Execute(dir, args.Gengo(), Build(gens)...)
	r := Result{Err: out.ErrString(), Failed: out.Failed(), Events: out.Events}
	if out.Panic != nil {
		r.Panic = fmt.Sprintf("%v\n%s", out.Panic, out.Stack)
	}
	return r
}

// ChildMain is the entry point of `vcheck -child <spec.json>`.
func ChildMain(specFile string) {
	b, err := os.ReadFile(specFile)
	if err != nil {
		fmt.Fprintln(os.Stderr, err)
		os.Exit(5)
	}
	var rs RunSpec
	if err := json.Unmarshal(b, &rs); err != nil {
		fmt.Fprintln(os.Stderr, err)
		os.Exit(5)
	}
	if rs.Fault.Point != "" {
		pipeline.Current.HookFault = func(point, detail string, nth int) {
			if point == rs.Fault.Point && nth == rs.Fault.Nth {
				_ = syscall.Kill(os.Getpid(), syscall.SIGKILL)
				time.Sleep(time.Hour)
			}
		}
	}
	// gengo prints to stdout; keep it away from the terminal
	if devnull, err := os.OpenFile("/dev/null", os.O_WRONLY, 0); err == nil {
		_ = syscall.Dup2(int(devnull.Fd()), 1)
	}
	if rs.Workspace {
		fixture.CleanGoEnv()
		os.Setenv("GOWORK", "")
	}
	res := RunInProcess(rs.Dir, rs.Args, rs.Gens)
	ob, _ := json.Marshal(res)
	if err := os.WriteFile(rs.Out, ob, 0o644); err != nil {
		fmt.Fprintln(os.Stderr, err)
		os.Exit(5)
	}
}

// RunChild executes gengo in a child process of this binary (optionally under a wrapper such as strace).
func RunChild(scratch string, rs RunSpec, wrapper ...string) Result {
	exe := os.Getenv("VERIF_EXE")
	if exe == "" {
		exe, _ = os.Executable()
	}
	dir, err := os.MkdirTemp(scratch, "child-")
	if err != nil {
		return Result{Err: err.Error(), Failed: true}
	}
	defer os.RemoveAll(dir)
	rs.Out = filepath.Join(dir, "out.json")
	sb, _ := json.Marshal(rs)
	specFile := filepath.Join(dir, "spec.json")
	_ = os.WriteFile(specFile, sb, 0o644)
	argv := append(append([]string{}, wrapper...), exe, "-child", specFile)
	cmd := exec.Command(argv[0], argv[1:]...)
	cmd.Dir = dir
	var stderr limitedBuf
	cmd.Stderr = &stderr
	if err := cmd.Start(); err != nil {
		return Result{Err: err.Error(), Failed: true}
	}
	done := make(chan error, 1)
	go func() { done <- cmd.Wait() }()
	var werr error
	select {
	case werr = <-done:
	case <-time.After(10 * time.Minute):
		_ = cmd.Process.Kill()
		werr = <-done
	}
	var res Result
	if ob, err := os.ReadFile(rs.Out); err == nil {
		_ = json.Unmarshal(ob, &res)
	} else {
		res.Died = true
		res.Failed = true
	}
	if werr != nil {
		res.ExitStatus = werr.Error()
	}
	res.Stderr = stderr.String()
	return res
}

type limitedBuf struct{ b []byte }

func (l *limitedBuf) Write(p []byte) (int, error) {
	if len(l.b) < 1<<16 {
		l.b = append(l.b, p...)
	}
	return len(p), nil
}
func (l *limitedBuf) String() string { return string(l.b) }

func sanitize(s string) string {
	b := []byte(s)
	for i, c := range b {
		if !(c >= 'a' && c <= 'z' || c >= 'A' && c <= 'Z' || c >= '0' && c <= '9') {
			b[i] = '_'
		}
	}
	return string(b)
}

// observe renders everything gengo hands to a generator for one type, so that any order dependence or
// wrong attribution inside gengo shows up as different output bytes.
// analyze renders what ResultsOf answers for every function of the package and, asked through this package, for
// every function of the module-local packages it imports.
func analyze(c gengo.Context, gen string) {
	pkg := c.Package("")
	own := func(pos token.Pos) bool {
		return !strings.HasPrefix(filepath.Base(pkg.Position(pos).Filename), "zz_generated.")
	}
	emit := func(label string, q interface {
		Functions() map[string]*types.Func
	}) {
		var names []string
		for n, f := range q.Functions() {
			if own(f.Pos()) {
				names = append(names, n)
			}
		}
		sort.Strings(names)
		for _, n := range names {
			results, k := pkg.ResultsOf(q.Functions()[n])
			c.RenderT("// @g: results of @l@f: @k @r\n", snippet.Arg("g", snippet.Block(gen)), snippet.Arg("l", snippet.Block(label)), snippet.Arg("f", snippet.Block(n)),
				snippet.Arg("k", snippet.Block(fmt.Sprint(k))), snippet.Arg("r", snippet.Block(strings.ReplaceAll(results.String(), "\n", " "))))
		}
	}
	// method sets: for the package's own types the value-receiver subset is asked first, then the full set; for the
	// types of imported packages the other way round - an answer must not depend on what was asked before, by whom
	methodsOf := func(label string, q gengotypes.Package, valueFirst bool) {
		var names []string
		for n, t := range q.Types() {
			if own(t.Pos()) {
				names = append(names, n)
			}
		}
		sort.Strings(names)
		for _, n := range names {
			named, ok := q.Types()[n].Type().(*types.Named)
			if !ok || named.NumMethods() == 0 {
				continue
			}
			list := func(ptr bool) string {
				var ms []string
				for _, m := range q.MethodsOf(named, ptr) {
					if own(m.Pos()) {
						ms = append(ms, m.Name())
					}
				}
				sort.Strings(ms)
				return strings.Join(ms, ",")
			}
			var all, val string
			if valueFirst {
				val = list(false)
				all = list(true)
			} else {
				all = list(true)
				val = list(false)
			}
			c.RenderT("// @g: methods of @l@t: all [@a] value [@v]\n", snippet.Arg("g", snippet.Block(gen)), snippet.Arg("l", snippet.Block(label)), snippet.Arg("t", snippet.Block(n)), snippet.Arg("a", snippet.Block(all)), snippet.Arg("v", snippet.Block(val)))
		}
	}
	// documentation as this package's Context reports it (leading name removed, tags merged): for the package's own
	// types and their fields and for those of imported packages - the SAME declaration is then asked about from several
	// packages of one run (seeded change C05-l: a shared cache of doc lines that Context.Doc edits in place)
	docsOf := func(label string, q gengotypes.Package) {
		var names []string
		for n, t := range q.Types() {
			if own(t.Pos()) {
				names = append(names, n)
			}
		}
		sort.Strings(names)
		for _, n := range names {
			obj := q.Types()[n]
			_, doc := c.Doc(obj)
			c.RenderT("// @g: doc of @l@t: @d\n", snippet.Arg("g", snippet.Block(gen)), snippet.Arg("l", snippet.Block(label)), snippet.Arg("t", snippet.Block(n)), snippet.Arg("d", snippet.Block(fmt.Sprintf("%q", doc))))
			st, ok := obj.Type().Underlying().(*types.Struct)
			if !ok {
				continue
			}
			for i := 0; i < st.NumFields(); i++ {
				f := st.Field(i)
				if !f.Pos().IsValid() || f.Pkg() == nil || f.Pkg().Path() != q.Pkg().Path() {
					continue
				}
				_, fdoc := c.Doc(f)
				c.RenderT("// @g: doc of @l@t.@f: @d\n", snippet.Arg("g", snippet.Block(gen)), snippet.Arg("l", snippet.Block(label)), snippet.Arg("t", snippet.Block(n)), snippet.Arg("f", snippet.Block(f.Name())), snippet.Arg("d", snippet.Block(fmt.Sprintf("%q", fdoc))))
			}
		}
	}
	emit("", pkg)
	methodsOf("", pkg, true)
	docsOf("", pkg)
	var ips []string
	for ip := range pkg.Imports() {
		if pkg.Module() != nil && strings.HasPrefix(ip, pkg.Module().Path+"/") {
			ips = append(ips, ip)
		}
	}
	sort.Strings(ips)
	for _, ip := range ips {
		if q := pkg.Imports()[ip]; q != nil {
			emit(ip+".", q)
			methodsOf(ip+".", q, false)
			docsOf(ip+".", q)
		}
	}
	c.RenderT("\nvar _ = \"analyzed by @g\"\n\n", snippet.Arg("g", snippet.Block(gen)))
}

func observe(c gengo.Context, bh Behav, gen string, named *types.Named) {
	obj := named.Obj()
	pkg := c.Package("")
	tags, doc := c.Doc(obj)
	var tk []string
	for k, v := range tags {
		tk = append(tk, fmt.Sprintf("%s=%v", k, v))
	}
	sort.Strings(tk)
	c.RenderT("// @g observes @n: @fp\n// tags: @tags\n// doc: @doc\n",
		snippet.Arg("g", snippet.Block(gen)), snippet.Arg("n", snippet.Block(obj.Name())), snippet.Arg("fp", snippet.Block(pipeline.TypeFingerprint(named))),
		snippet.Arg("tags", snippet.Block(strings.Join(tk, " "))), snippet.Arg("doc", snippet.Block(strings.Join(doc, " | "))))
	// lookups by name (must never depend on map iteration order)
	vals := map[string]string{}
	for _, n := range bh.Probe {
		if t := pkg.Type(n); t != nil {
			vals["type:"+n] = fmt.Sprintf("%s at line %d", t.Type().Underlying().String(), pkg.Position(t.Pos()).Line)
		}
		if k := pkg.Constant(n); k != nil {
			vals["const:"+n] = k.Val().ExactString()
		}
		if f := pkg.Function(n); f != nil {
			vals["func:"+n] = f.Type().String()
		}
	}
	// table sizes, methods and imports - counted over hand-written files only: generated files are part of the
	// package on the next run, and what a generator adds there must not feed back into what it observes
	own := func(pos token.Pos) bool {
		return !strings.HasPrefix(filepath.Base(pkg.Position(pos).Filename), "zz_generated.")
	}
	nt, nc, nf := 0, 0, 0
	for _, t := range pkg.Types() {
		if own(t.Pos()) {
			nt++
		}
	}
	for _, k := range pkg.Constants() {
		if own(k.Pos()) {
			nc++
		}
	}
	for _, f := range pkg.Functions() {
		if own(f.Pos()) {
			nf++
		}
	}
	vals["ntypes"], vals["nconsts"], vals["nfuncs"] = fmt.Sprint(nt), fmt.Sprint(nc), fmt.Sprint(nf)
	var ms []string
	for _, m := range pkg.MethodsOf(named, true) {
		if own(m.Pos()) {
			ms = append(ms, m.Name())
		}
	}
	sort.Strings(ms)
	vals["methods"] = strings.Join(ms, ",")
	var ips []string
	for ip, p := range pkg.Imports() {
		if pkg.Module() != nil && strings.HasPrefix(ip, pkg.Module().Path+"/") { // module-local imports (generated files only add std / third-party ones)
			ips = append(ips, fmt.Sprintf("%s:%v", ip, p != nil))
		}
	}
	sort.Strings(ips)
	vals["imports"] = strings.Join(ips, ",")
	// where the universe locates the type's position, what the context returns for the package's own path and for its
	// module-local imports, and the source directory relative to the module root
	if lp := c.LocateInPackage(obj.Pos()); lp != nil {
		vals["located"] = lp.Pkg().Path()
	} else {
		vals["located"] = "none"
	}
	if own := c.Package(pkg.Pkg().Path()); own != nil {
		vals["self"] = own.Pkg().Path()
		if mod := own.Module(); mod != nil {
			if rel, err := filepath.Rel(mod.Dir, own.SourceDir()); err == nil {
				vals["srcdir"] = filepath.ToSlash(rel)
			}
		}
	}
	for _, ipd := range ips {
		ip := strings.SplitN(ipd, ":", 2)[0]
		if q := c.Package(ip); q != nil {
			vals["ctx-import:"+ip] = fmt.Sprintf("%s (%d own types)", q.Pkg().Name(), func() int {
				n := 0
				for _, t := range q.Types() {
					if !strings.HasPrefix(filepath.Base(q.Position(t.Pos()).Filename), "zz_generated.") {
						n++
					}
				}
				return n
			}())
		}
	}
	// the declaration the type's position resolves to (looked up across the package's files)
	switch d := pkg.Decl(obj.Pos()).(type) {
	case nil:
		vals["decl"] = "none"
	case *ast.GenDecl:
		vals["decl"] = fmt.Sprintf("%s with %d spec(s) in %s, trailing %q", d.Tok, len(d.Specs), filepath.Base(pkg.Position(d.Pos()).Filename), strings.Join(pkg.Comment(obj.Pos()), "|"))
	default:
		vals["decl"] = fmt.Sprintf("%T", d)
	}
	// a map-valued Value with many keys: the dumper must emit it in a fixed order
	c.RenderT("var _ = @v\n\n", snippet.Arg("v", snippet.Value(vals)))
	if named.Obj().Name() == "Anchor" {
		// entries whose values reference two packages that want the same import name: which one gets the short
		// name must not depend on the order in which the map is walked (rendered as a comment: the fixture
		// packages are not importable from the scratch module)
		c.RenderT("/*\n@v\n*/\n\n", snippet.Arg("v", snippet.Value(holder.Sample())))
	}
	multiImport(c, bh.Imports)
	for _, ip := range bh.Imports {
		c.RenderT("var _ @t\n\n", snippet.Arg("t", snippet.ID(ip)))
	}
}

// multiImport: ONE template call whose arguments bring in several not yet imported packages (their base names often
// clash: x/model + y/model, math/rand + x/rand). Import names are handed out first come, first served - in the order
// the template mentions the arguments, never in the iteration order of the argument map (seeded change C04-n).
func multiImport(c gengo.Context, imports []string) {
	if len(imports) < 2 {
		return
	}
	// those whose package base name occurs more than once come first (stable otherwise)
	base := func(ref string) string {
		pp := ref
		if i := strings.LastIndex(ref, "."); i > strings.LastIndex(ref, "/") {
			pp = ref[:i]
		}
		return pp[strings.LastIndex(pp, "/")+1:]
	}
	count := map[string]int{}
	for _, ip := range imports {
		count[base(ip)]++
	}
	imports = append([]string{}, imports...)
	sort.SliceStable(imports, func(i, j int) bool { return count[base(imports[i])] > 1 && count[base(imports[j])] <= 1 })
	args := snippet.Args{}
	format := "var _ struct {\n"
	for i, ip := range imports {
		if i >= 8 {
			break
		}
		args[fmt.Sprintf("t%d", i)] = snippet.ID(ip)
		format += fmt.Sprintf("\tF%d @t%d\n", i, i)
	}
	c.RenderT(format+"}\n\n", args)
}
