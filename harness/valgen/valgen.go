// Package valgen generates seeded Go values over the fixture type catalogue. It is linked both into
// the harness worker (to render the value with gengo) and into the compiled check program (to
// regenerate value i from the same seed and compare it with what the rendered literal evaluated to).
package valgen

import (
	"strings"
	"bytes"
	"fmt"
	"hash/fnv"
	"math"
	"math/rand"
	"reflect"
	"time"

	"verif/fixtures/vt"
	"verif/fixtures/vu"
)

type Root struct {
	Name string
	Type reflect.Type
}

func t[X any]() reflect.Type { return reflect.TypeFor[X]() }

// Roots is the catalogue of root types (cycled through by case index).
var Roots = []Root{
	{"bool", t[bool]()}, {"int", t[int]()}, {"int8", t[int8]()}, {"int16", t[int16]()}, {"int32(rune)", t[rune]()}, {"int64", t[int64]()},
	{"uint", t[uint]()}, {"uint8", t[uint8]()}, {"uint16", t[uint16]()}, {"uint32", t[uint32]()}, {"uint64", t[uint64]()}, {"uintptr", t[uintptr]()},
	{"float32", t[float32]()}, {"float64", t[float64]()}, {"string", t[string]()},
	{"vt.MyInt", t[vt.MyInt]()}, {"vt.MyI8", t[vt.MyI8]()}, {"vt.MyI64", t[vt.MyI64]()}, {"vt.MyUint", t[vt.MyUint]()}, {"vt.MyU8", t[vt.MyU8]()}, {"vt.MyUintptr", t[vt.MyUintptr]()},
	{"vt.MyF32", t[vt.MyF32]()}, {"vt.MyF64", t[vt.MyF64]()}, {"vt.MyStr", t[vt.MyStr]()}, {"vt.MyBool", t[vt.MyBool]()}, {"vt.MyRune", t[vt.MyRune]()},
	{"vu.MyID", t[vu.MyID]()}, {"vu.Kind", t[vu.Kind]()}, {"time.Duration", t[time.Duration]()},
	{"*int", t[*int]()}, {"*string", t[*string]()}, {"*bool", t[*bool]()}, {"*float64", t[*float64]()}, {"*float32", t[*float32]()}, {"*uintptr", t[*uintptr]()}, {"*rune", t[*rune]()}, {"*uint8", t[*uint8]()},
	{"*vt.MyInt", t[*vt.MyInt]()}, {"*vt.MyStr", t[*vt.MyStr]()}, {"*vt.MyF64", t[*vt.MyF64]()}, {"*vu.MyID", t[*vu.MyID]()}, {"*time.Duration", t[*time.Duration]()},
	{"*vt.Leaf", t[*vt.Leaf]()}, {"*vt.Empty", t[*vt.Empty]()}, {"*vu.Item", t[*vu.Item]()}, {"*[]int", t[*[]int]()}, {"*map[string]int", t[*map[string]int]()}, {"*bytes.Buffer", t[*bytes.Buffer]()},
	{"vt.Leaf", t[vt.Leaf]()}, {"vt.Empty", t[vt.Empty]()}, {"vt.Ptrs", t[vt.Ptrs]()}, {"vt.Conts", t[vt.Conts]()}, {"vt.Deep", t[vt.Deep]()}, {"vt.Deep2", t[vt.Deep2]()}, {"vt.Scalars", t[vt.Scalars]()},
	{"vu.Item", t[vu.Item]()}, {"vu.Pt", t[vu.Pt]()}, {"bytes.Buffer", t[bytes.Buffer]()},
	{"[]string", t[[]string]()}, {"[]int", t[[]int]()}, {"[]byte", t[[]byte]()}, {"[]rune", t[[]rune]()}, {"[]float64", t[[]float64]()}, {"[]float32", t[[]float32]()}, {"[]vt.Leaf", t[[]vt.Leaf]()}, {"[]*vt.Leaf", t[[]*vt.Leaf]()},
	{"[]vt.MyStr", t[[]vt.MyStr]()}, {"[]*string", t[[]*string]()}, {"[]vu.Item", t[[]vu.Item]()}, {"[][]int", t[[][]int]()}, {"[]map[string]vt.Leaf", t[[]map[string]vt.Leaf]()}, {"[]vt.Empty", t[[]vt.Empty]()},
	{"[3]int", t[[3]int]()}, {"[2]string", t[[2]string]()}, {"[2]vt.Leaf", t[[2]vt.Leaf]()}, {"[0]int", t[[0]int]()}, {"[2][]int", t[[2][]int]()}, {"[2]*vt.Leaf", t[[2]*vt.Leaf]()},
	{"map[string]int", t[map[string]int]()}, {"map[int]string", t[map[int]string]()}, {"map[float64]string", t[map[float64]string]()}, {"map[rune]bool", t[map[rune]bool]()}, {"map[vt.MyStr]vt.Leaf", t[map[vt.MyStr]vt.Leaf]()},
	{"map[string]*vt.Leaf", t[map[string]*vt.Leaf]()}, {"map[vu.MyID]vt.MyInt", t[map[vu.MyID]vt.MyInt]()}, {"map[string][]string", t[map[string][]string]()}, {"map[string]map[string]int", t[map[string]map[string]int]()},
	{"vt.K8s", t[vt.K8s]()}, {"*vt.K8s", t[*vt.K8s]()}, {"[]vt.K8s", t[[]vt.K8s]()},
	{"vt.Stamped", t[vt.Stamped]()}, {"[]vt.Stamped", t[[]vt.Stamped]()}, {"map[string]vt.Stamped", t[map[string]vt.Stamped]()},
	{"vt.Emb", t[vt.Emb]()}, {"*vt.Emb", t[*vt.Emb]()}, {"[]vt.Emb", t[[]vt.Emb]()}, {"vt.IDs", t[vt.IDs]()}, {"vt.Dict", t[vt.Dict]()}, {"vt.Grid", t[vt.Grid]()}, {"vt.Named", t[vt.Named]()}, {"map[string]vt.IDs", t[map[string]vt.IDs]()},
	{"map[bool]vt.Empty", t[map[bool]vt.Empty]()}, {"map[uint8]vu.Pt", t[map[uint8]vu.Pt]()}, {"map[string]vt.Deep2", t[map[string]vt.Deep2]()}, {"map[[2]int]string", t[map[[2]int]string]()}, {"map[vt.MyRune]string", t[map[vt.MyRune]string]()},
}

func subSeed(seed int64, i int) int64 {
	h := fnv.New64a()
	fmt.Fprintf(h, "valgen/%d/%d", seed, i)
	return int64(h.Sum64() & 0x7fffffffffffffff)
}

// Value returns the i-th value for a seed (deterministic across processes) and its root index.
func Value(seed int64, i int) (int, reflect.Value) {
	r := rand.New(rand.NewSource(subSeed(seed, i)))
	if i%3 == 2 {
		// a random composite type over the base types (struct keys, deep nesting of containers)
		t := RandType(r, 1+r.Intn(4))
		return -1, Fill(r, t, 4)
	}
	root := (i - i/3) % len(Roots)
	return root, Fill(r, Roots[root].Type, 4)
}

var baseTypes = []reflect.Type{
	t[int](), t[string](), t[bool](), t[float64](), t[uint8](), t[rune](), t[uintptr](), t[float32](), t[int64](),
	t[vt.MyInt](), t[vt.MyStr](), t[vt.MyF64](), t[vu.MyID](), t[time.Duration](),
	t[vt.Leaf](), t[vt.Empty](), t[vu.Pt](), t[vu.Item](), t[vt.Deep2](), t[vt.Ptrs](), t[struct{}](),
}

var keyTypes = []reflect.Type{
	t[string](), t[int](), t[bool](), t[float64](), t[rune](), t[uint8](), t[vt.MyStr](), t[vu.MyID](), t[[2]int](),
	t[vu.Pt](), t[vt.Leaf](), t[vt.Empty](), t[struct{}](), t[[1]vu.Pt](),
}

// RandType builds a composite type with reflect.*Of (single-level pointers only).
func RandType(r *rand.Rand, depth int) reflect.Type {
	if depth <= 0 {
		return baseTypes[r.Intn(len(baseTypes))]
	}
	switch r.Intn(5) {
	case 0:
		return reflect.SliceOf(RandType(r, depth-1))
	case 1:
		return reflect.ArrayOf(r.Intn(3), RandType(r, depth-1))
	case 2, 3:
		return reflect.MapOf(keyTypes[r.Intn(len(keyTypes))], RandType(r, depth-1))
	}
	e := RandType(r, depth-1)
	if e.Kind() == reflect.Ptr {
		return e
	}
	return reflect.PointerTo(e)
}

// RootName names the root of value i.
func RootName(root int, v reflect.Value) string {
	if root >= 0 {
		return Roots[root].Name
	}
	return "random:" + v.Type().String()
}

// strFragments: composed strings are 1-6 of these in a row (line ends of every kind, both quote characters, escapes,
// NUL, BOM, line / paragraph separators, invalid UTF-8, template and format metacharacters)
var strFragments = []string{"\n", "\r", "\r\n", "`", "\"", "\\", "\x00", "\ufeff", "\u2028", "\u2029", "\u0085", "a", "line", "é", "世", "\xff", "\xed\xa0\x80", "%", "@x", "'", "\t", " ", "\x7f", "\x1b", "${x}", "//", "/*", "*/"}

// RandString: half of the time one of the pool strings, otherwise a composition of fragments.
func RandString(r *rand.Rand) string {
	if r.Intn(2) == 0 {
		return stringsPool[r.Intn(len(stringsPool))]
	}
	var b strings.Builder
	for i, n := 0, 1+r.Intn(6); i < n; i++ {
		b.WriteString(strFragments[r.Intn(len(strFragments))])
	}
	return b.String()
}

var stringsPool = []string{"", "a", "hello", "quote\"s", "new\nline", "back`tick", "\xff\xfe", "世界", "tab\t", "\\", "nul\x00", "'", "%v@x'", "é", " lead", " ", "a\xc3", "line one\r\nline two\r\n", "a\nb\x00", "\n\ufeffbom", "multi\nline\ntext\n", "cr\ronly"}
var runePool = []rune{'a', '\'', '\n', 0, 0x10FFFF, -1, 'é', '世', 0xD800, '"', '\\', 127, 0x80, ' '}
var f64Pool = []float64{0, math.Copysign(0, -1), 1, -1, 0.1, 1e21, 1e20, math.MaxFloat64, -math.MaxFloat64, math.SmallestNonzeroFloat64, 1.5, 1e-7, 123456789.125, 1e300, 3, 1 << 53, 0.30000000000000004}
var f32Pool = []float32{0, 1, -1, 0.1, 1e21, math.MaxFloat32, math.SmallestNonzeroFloat32, 1.5, 16777216, 3.4e38, 1e-45, 0.3}

// Fill builds a value of type t.
func Fill(r *rand.Rand, t reflect.Type, depth int) reflect.Value {
	v := reflect.New(t).Elem()
	fill(r, v, depth)
	return v
}

func fill(r *rand.Rand, v reflect.Value, depth int) {
	t := v.Type()
	switch t.Kind() {
	case reflect.Bool:
		v.SetBool(r.Intn(2) == 0)
	case reflect.Int, reflect.Int8, reflect.Int16, reflect.Int32, reflect.Int64:
		bits := t.Bits()
		if t == reflect.TypeFor[rune]() || t == reflect.TypeFor[vt.MyRune]() {
			v.SetInt(int64(runePool[r.Intn(len(runePool))]))
			return
		}
		minV := int64(-1) << (bits - 1)
		maxV := -(minV + 1)
		switch r.Intn(7) {
		case 0:
			v.SetInt(0)
		case 1:
			v.SetInt(minV)
		case 2:
			v.SetInt(maxV)
		case 3:
			v.SetInt(-1)
		default:
			x := r.Int63()
			if r.Intn(2) == 0 {
				x = -x
			}
			if bits < 64 {
				x = x % (maxV + 1)
			}
			v.SetInt(x)
		}
	case reflect.Uint, reflect.Uint8, reflect.Uint16, reflect.Uint32, reflect.Uint64, reflect.Uintptr:
		bits := t.Bits()
		maxV := uint64(math.MaxUint64)
		if bits < 64 {
			maxV = 1<<uint(bits) - 1
		}
		switch r.Intn(5) {
		case 0:
			v.SetUint(0)
		case 1:
			v.SetUint(maxV)
		default:
			v.SetUint(r.Uint64() & maxV)
		}
	case reflect.Float32:
		if r.Intn(3) == 0 {
			v.SetFloat(float64(float32(r.NormFloat64() * math.Pow(10, float64(r.Intn(60)-30)))))
		} else {
			v.SetFloat(float64(f32Pool[r.Intn(len(f32Pool))]))
		}
	case reflect.Float64:
		if r.Intn(3) == 0 {
			v.SetFloat(r.NormFloat64() * math.Pow(10, float64(r.Intn(600)-300)))
		} else {
			v.SetFloat(f64Pool[r.Intn(len(f64Pool))])
		}
	case reflect.String:
		v.SetString(RandString(r))
	case reflect.Ptr:
		if r.Intn(4) == 0 {
			return
		}
		p := reflect.New(t.Elem())
		// pointers to zero-valued targets are an explicit corner of the domain
		if r.Intn(3) != 0 {
			fill(r, p.Elem(), depth-1)
		}
		v.Set(p)
	case reflect.Slice:
		switch r.Intn(5) {
		case 0:
			return
		case 1:
			v.Set(reflect.MakeSlice(t, 0, 0))
			return
		}
		n := 1 + r.Intn(3)
		s := reflect.MakeSlice(t, n, n)
		for i := 0; i < n; i++ {
			if depth > 0 || isScalar(t.Elem()) {
				fill(r, s.Index(i), depth-1)
			}
		}
		v.Set(s)
	case reflect.Array:
		for i := 0; i < v.Len(); i++ {
			if depth > 0 || isScalar(t.Elem()) {
				fill(r, v.Index(i), depth-1)
			}
		}
	case reflect.Map:
		switch r.Intn(5) {
		case 0:
			return
		case 1:
			v.Set(reflect.MakeMap(t))
			return
		}
		m := reflect.MakeMap(t)
		n := 1 + r.Intn(4)
		for i := 0; i < n; i++ {
			k := reflect.New(t.Key()).Elem()
			fill(r, k, depth-1)
			if k.Kind() == reflect.Float64 && k.Float() == 0 {
				k.SetFloat(0) // +0 and -0 are the same key; keep it canonical
			}
			e := reflect.New(t.Elem()).Elem()
			// zero-valued struct values inside maps are an explicit corner
			if r.Intn(4) != 0 && (depth > 0 || isScalar(t.Elem())) {
				fill(r, e, depth-1)
			}
			m.SetMapIndex(k, e)
		}
		v.Set(m)
	case reflect.Struct:
		if t == reflect.TypeFor[bytes.Buffer]() {
			return // only the zero Buffer is in the domain (exported fields only)
		}
		if t == reflect.TypeFor[time.Time]() {
			// opaque (no exported fields): outside the domain as a value, but it may sit non-zero in a field of a
			// struct that is in the domain - the dumper leaves it out, the comparison ignores it
			if r.Intn(3) != 0 {
				v.Set(reflect.ValueOf(time.Unix(int64(r.Intn(1000000)), 0).UTC()))
			}
			return
		}
		for i := 0; i < t.NumField(); i++ {
			f := t.Field(i)
			if !f.IsExported() {
				continue
			}
			if r.Intn(3) == 0 {
				continue
			}
			if depth <= 0 && !isScalar(f.Type) {
				continue
			}
			fill(r, v.Field(i), depth-1)
		}
	}
}

func isScalar(t reflect.Type) bool {
	switch t.Kind() {
	case reflect.Struct, reflect.Map, reflect.Slice, reflect.Array, reflect.Ptr:
		return false
	}
	return true
}

// Equalish: deep equality that identifies nil and empty slices/maps and compares floats with ==.
func Equalish(a, b reflect.Value) (bool, string) {
	return eq(a, b, "")
}

func eq(a, b reflect.Value, path string) (bool, string) {
	if a.Type() != b.Type() {
		return false, fmt.Sprintf("%s: type %s vs %s", path, a.Type(), b.Type())
	}
	switch a.Kind() {
	case reflect.Bool:
		if a.Bool() != b.Bool() {
			return false, fmt.Sprintf("%s: %v vs %v", path, a.Bool(), b.Bool())
		}
	case reflect.Int, reflect.Int8, reflect.Int16, reflect.Int32, reflect.Int64:
		if a.Int() != b.Int() {
			return false, fmt.Sprintf("%s: %d vs %d", path, a.Int(), b.Int())
		}
	case reflect.Uint, reflect.Uint8, reflect.Uint16, reflect.Uint32, reflect.Uint64, reflect.Uintptr:
		if a.Uint() != b.Uint() {
			return false, fmt.Sprintf("%s: %d vs %d", path, a.Uint(), b.Uint())
		}
	case reflect.Float32, reflect.Float64:
		if a.Float() != b.Float() {
			return false, fmt.Sprintf("%s: %v vs %v", path, a.Float(), b.Float())
		}
	case reflect.String:
		if a.String() != b.String() {
			return false, fmt.Sprintf("%s: %q vs %q", path, a.String(), b.String())
		}
	case reflect.Ptr:
		if a.IsNil() != b.IsNil() {
			return false, fmt.Sprintf("%s: nil-ness %v vs %v", path, a.IsNil(), b.IsNil())
		}
		if !a.IsNil() {
			return eq(a.Elem(), b.Elem(), path+".*")
		}
	case reflect.Slice, reflect.Array:
		if a.Len() != b.Len() {
			return false, fmt.Sprintf("%s: len %d vs %d", path, a.Len(), b.Len())
		}
		for i := 0; i < a.Len(); i++ {
			if ok, m := eq(a.Index(i), b.Index(i), fmt.Sprintf("%s[%d]", path, i)); !ok {
				return false, m
			}
		}
	case reflect.Map:
		if a.Len() != b.Len() {
			return false, fmt.Sprintf("%s: map len %d vs %d", path, a.Len(), b.Len())
		}
		for _, k := range a.MapKeys() {
			bv := b.MapIndex(k)
			if !bv.IsValid() {
				return false, fmt.Sprintf("%s: key %v missing", path, k)
			}
			if ok, m := eq(a.MapIndex(k), bv, fmt.Sprintf("%s[%v]", path, k)); !ok {
				return false, m
			}
		}
	case reflect.Struct:
		for i := 0; i < a.NumField(); i++ {
			if ok, m := eq(a.Field(i), b.Field(i), path+"."+a.Type().Field(i).Name); !ok {
				return false, m
			}
		}
	default:
		return false, fmt.Sprintf("%s: unsupported kind %s", path, a.Kind())
	}
	return true, ""
}
