#!/usr/bin/env bash
# ./selftest.sh [filter] : apply each mutant patch listed in mutants/MAP (patch <tab> property ids) to /repo, run the quick
# checks of the mapped properties, undo; every mutant must be DETECTED by at least one mapped check.
set -u
cd "$(dirname "$0")"
FILTER="${1:-}"
if [ -n "$(git -C /repo status --porcelain)" ]; then echo "repo dirty, refusing"; exit 9; fi
mkdir -p /tmp/selftest-ev
while IFS=$'\t' read -r PATCH PROPS NOTE; do
  [ -z "$PATCH" ] && continue
  case "$PATCH" in \#*) continue;; esac
  if [ -n "$FILTER" ] && ! echo "$PATCH $PROPS" | grep -q "$FILTER"; then continue; fi
  if ! git -C /repo apply --check "$PWD/mutants/$PATCH" 2>/dev/null; then echo "SKIP  $PATCH (does not apply to the current tree)"; continue; fi
  git -C /repo apply "$PWD/mutants/$PATCH"
  RES=""
  for ID in $PROPS; do
    cp evidence/$ID.json /tmp/selftest-ev/$ID.json 2>/dev/null
    timeout 900 ./check "$ID" quick > /tmp/selftest-$ID.log 2>&1
    RC=$?
    cp /tmp/selftest-ev/$ID.json evidence/$ID.json 2>/dev/null
    if [ $RC -eq 1 ] && grep -q "^VIOLATION property=$ID" /tmp/selftest-$ID.log; then RES="$RES $ID:DETECTED"; else RES="$RES $ID:missed(rc=$RC)"; fi
  done
  git -C /repo checkout -- .
  echo "$PATCH ->$RES"
done < mutants/MAP
