#!/usr/bin/env bash
# ./bgseed.sh <k> <n> : for `vp run --with-repo -- ./bgseed.sh <k> <n>`; re-tests every stored seeded change whose index mod n == k
# against the snapshot of /repo's HEAD ($VP_RUN_REPO) with the quick check of its property (from meta.json). Prints
# DETECTED / MISSED / SKIP per seed. Exploration only, never evidence.
set -u
cd "$(dirname "$0")"
K="$1"; N="$2"
R="${VP_RUN_REPO:?needs vp run --with-repo}"
sed -i "s#=> /repo#=> $R#" harness/go.mod
export VERIF_REPO="$R"
mkdir -p logs
I=0
for D in seeded/*/; do
  NAME=$(basename "$D")
  I=$((I+1))
  [ $((I % N)) -eq "$K" ] || continue
  P="$PWD/$D/patch.diff"
  ID=$(python3 -c "import json;print(json.load(open('$D/meta.json'))['property'])" 2>/dev/null)
  [ -n "$ID" ] || { echo "$NAME: SKIP (no meta)"; continue; }
  if ! git -C "$R" apply --check "$P" 2>/dev/null; then echo "$NAME: SKIP (does not apply)"; continue; fi
  git -C "$R" apply "$P"
  ./check $ID quick > logs/$NAME.log 2>&1; RC=$?
  git -C "$R" checkout -- .
  if [ $RC -eq 1 ] && grep -q "^VIOLATION property=$ID" logs/$NAME.log; then echo "$NAME: DETECTED ($ID)"; else echo "$NAME: MISSED ($ID rc=$RC)"; fi
done
