#!/usr/bin/env bash
# ./seedmeta_auto.sh <ID> <tag> <caught|missed-then-caught> <notes> : seedmeta.py with dest/cmd taken from the agent's meta.json
ID="$1"; TAG="$2"; RES="$3"; NOTES="$4"
cd "$(dirname "$0")"
CMD=$(python3 -c "
import json
m=json.load(open('seeded/$ID-$TAG/agent_meta.json'))
print(m.get('demo_cmd','').split('&&')[-1].strip().replace(\"'\",''))")
DEST=$(echo "$CMD" | grep -o '\./[A-Za-z0-9_/.-]*' | head -1 | sed 's#^\./##; s#/$##; s#/\.\.\.$##')
./seedmeta.py "$ID-$TAG" "$ID" "$DEST" "$CMD" "$RES" "$NOTES"
